// C20 — lines reach each program in order, exactly once, across reloads.
// gosim schedule exploration of the real Runtime fan-out, VM run loops and
// CompileAndRun, deviation-bounded.
package main

import (
	"context"
	"fmt"
	"strings"
	"time"

	"github.com/google/mtail/internal/logline"
	"github.com/google/mtail/internal/metrics"
	"github.com/google/mtail/internal/metrics/datum"
	"github.com/google/mtail/internal/runtime"
	"github.com/google/mtail/internal/zverif/gsx"
	"github.com/google/mtail/internal/zverif/vlib"
	"github.com/google/mtail/internal/zverif/vrt"
	"github.com/google/mtail/internal/zverif/vrt/vsync"
)

func prog(v string) string {
	return "counter n\ngauge last\ncounter ver_" + v + "\n/^(\\d+)$/ {\n  last = $1\n}\n/./ {\n  n++\n  ver_" + v + "++\n}\n"
}

type obs struct {
	N, Sum int64
	Last   int64
	Vers   string
	Err    string
}

// stalledProg: version "a" observes into a histogram before anything else, and the harness stalls it in the
// middle of a line by holding that histogram datum's lock; the later versions do not have the histogram.
func stalledProg(v string) string {
	if v != "a" {
		return prog(v)
	}
	// (declared after the others, so that the declarations the versions share stay where they are)
	return strings.Replace(prog(v), "/^(\\d+)$/ {", "histogram slow buckets 1, 2\n/./ {\n  slow = 1\n}\n/^(\\d+)$/ {", 1)
}

func scenario(reloads int, lines []string, stalled bool) (func(), func() obs) {
	var store *metrics.Store
	var errs []string
	mkprog := prog
	if stalled {
		mkprog = stalledProg
	}
	body := func() {
		errs = nil
		store = metrics.NewStore()
		in := vrt.MkU(make(chan *logline.LogLine, 1))
		var wg vsync.WaitGroup
		rt, err := runtime.New(in, &wg, "", store)
		if err != nil {
			errs = append(errs, err.Error())
			return
		}
		if err := rt.CompileAndRun("p.mtail", strings.NewReader(mkprog("a"))); err != nil {
			errs = append(errs, err.Error())
		}
		var held *datum.Buckets
		if stalled {
			if m := store.FindMetricOrNil("slow", "p.mtail"); m != nil {
				if d, err := m.GetDatum(); err == nil {
					held = datum.GetBuckets(d)
				}
			}
			if held == nil {
				errs = append(errs, "harness: histogram datum not found")
				return
			}
		}
		if stalled {
			// the harness drives: line 1 (the running version gets stuck in it), the reload, line 2, each until
			// everything has come to rest, then the stuck version is released
			ctx := context.Background()
			// the first line is processed normally (the gauge exists from here on); from the second line on
			// the running version stalls in the middle of a line for as long as the harness wants
			vrt.S(in) <- logline.New(ctx, "f", lines[0])
			vrt.Quiesce()
			held.Lock()
			vrt.S(in) <- logline.New(ctx, "f", lines[1])
			vrt.Quiesce()
			vrt.Go(func() {
				if err := rt.CompileAndRun("p.mtail", strings.NewReader(mkprog("b"))); err != nil {
					errs = append(errs, err.Error())
				}
			})
			vrt.Quiesce()
			vrt.Go(func() {
				for _, l := range lines[2:] {
					vrt.S(in) <- logline.New(ctx, "f", l)
				}
				close(vrt.Cl(in))
			})
			vrt.Quiesce()
			held.Unlock()
			wg.Wait()
			vrt.Join()
			return
		}
		vrt.Go(func() {
			ctx := context.Background()
			for _, l := range lines {
				vrt.S(in) <- logline.New(ctx, "f", l)
			}
			close(vrt.Cl(in))
		})
		vrt.Go(func() {
			for i := 0; i < reloads; i++ {
				v := string(rune('b' + i))
				if err := rt.CompileAndRun("p.mtail", strings.NewReader(mkprog(v))); err != nil {
					errs = append(errs, err.Error())
				}
			}
		})
		wg.Wait()
		vrt.Join()
	}
	read := func() obs {
		o := obs{Err: strings.Join(errs, "; ")}
		var vers []string
		for name, ml := range store.Metrics {
			for _, m := range ml {
				for _, lv := range m.LabelValues {
					if m.Kind == metrics.Histogram {
						continue
					}
					v := datum.GetInt(lv.Value)
					switch {
					case name == "n":
						o.N += v
					case name == "last":
						o.Last = v
					case strings.HasPrefix(name, "ver_"):
						o.Sum += v
						vers = append(vers, fmt.Sprintf("%s=%d", name, v))
					}
				}
			}
		}
		o.Vers = strings.Join(gsx.Sorted(vers), ",")
		return o
	}
	return body, read
}

func main() {
	c := vlib.Init("exploration")
	type sc struct {
		name    string
		reloads int
		lines   []string
		bound   int
		stalled bool
	}
	scs := []sc{
		{"1reload/3lines", 1, []string{"1", "2", "3"}, c.Pick(2, 3), false},
		{"2reloads/3lines", 2, []string{"1", "2", "3"}, c.Pick(2, 2), false},
		// a single line: its datum is created while the input ends and the reload arrives
		{"1reload/1line", 1, []string{"1"}, c.Pick(2, 5), false},
		// the running version is stuck in the middle of the first line for as long as it takes everything else to
		// come to rest (a reload must wait for it, however long that is)
		{"1reload/3lines/old-version-stalled", 1, []string{"1", "2", "3"}, c.Pick(2, 3), true},
	}
	if c.Thorough() {
		scs = append(scs, sc{"1reload/4lines", 1, []string{"1", "2", "3", "x"}, 3, false}, sc{"1reload/2lines", 1, []string{"1", "2"}, 4, false})
	}
	for _, s := range scs {
		s := s
		body, read := scenario(s.reloads, s.lines, s.stalled)
		wantN := int64(len(s.lines))
		var wantLast int64
		for _, l := range s.lines {
			var x int64
			if _, err := fmt.Sscan(l, &x); err == nil {
				wantLast = x
			}
		}
		gsx.Explore(c, gsx.Config{
			Scenario: s.name, Bound: s.bound, MaxSteps: 20000,
			Deadline:      c.Deadline(4*time.Minute, 25*time.Minute),
			Body:          body,
			AllowDeadlock: true,
			AllowLeftover: true,
			Check: func(e vrt.Exec) (key, what, outcome string) {
				o := read()
				if e.Res.Deadlock != "" {
					// The only hang C20 tolerates as out of its scope is the shutdown hang of a
					// reload that lands after end of input (a VM started after the fan-out closed
					// all handles); anything else blocked is a violation.
					for _, l := range strings.Split(strings.TrimSpace(e.Res.Deadlock), "\n") {
						l = strings.TrimSpace(l)
						if (strings.HasPrefix(l, "T0(main)") && (strings.Contains(l, "WaitGroup.Wait") || strings.Contains(l, "Join"))) || (strings.Contains(l, "chan recv") && strings.Contains(l, "runtime/vm/vm.go")) || (strings.Contains(l, "WaitGroup.Wait") && strings.Contains(l, "at runtime/runtime.go")) {
							continue
						}
						return "deadlock " + s.name, "blocked threads:\n" + e.Res.Deadlock, "deadlock"
					}
					o.Vers += " [shutdown-hang: reload after end of input]"
				}
				outcome = fmt.Sprintf("n=%d last=%d %s", o.N, o.Last, o.Vers)
				switch {
				case o.Err != "":
					return "load-error " + s.name, o.Err, outcome
				case o.N != wantN:
					return fmt.Sprintf("n-wrong %s n=%d", s.name, o.N), fmt.Sprintf("shared counter n=%d after %d lines (lost or duplicated line)", o.N, wantN), outcome
				case o.Sum != wantN:
					return fmt.Sprintf("not-exactly-one-version %s sum=%d", s.name, o.Sum), fmt.Sprintf("version counters %s sum to %d, want %d: some line was processed by no version or by two", o.Vers, o.Sum, wantN), outcome
				case o.Last != wantLast:
					return fmt.Sprintf("order %s last=%d", s.name, o.Last), fmt.Sprintf("gauge last=%d but the last line that wrote it carried %d: effects applied out of arrival order", o.Last, wantLast), outcome
				}
				return "", "", outcome
			},
		})
	}
	c.Assume = []string{"scheduling points are the synchronisation operations of metrics, datum, runtime and vm (mutexes, atomics, channels, waitgroups, go); code between two such points runs atomically", "map iteration order is fixed to sorted key order by the engine"}
	gsx.Finish(c, "stateless DFS over schedules of {fan-out, VM run loops, feeder, reloader} with at most `bound` deviations from the default schedule, iteratively from 0; every execution runs the instrumented real code to completion; distinct_nontrivial = distinct final observations (n, last, per-version counters) plus distinct schedules with >=1 deviation")
}
