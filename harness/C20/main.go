// C20 — lines reach each program in order, exactly once, across reloads.
// gosim schedule exploration of the real Runtime fan-out, VM run loops and
// CompileAndRun, deviation-bounded.
package main

import (
	"context"
	"fmt"
	"strings"
	"time"

	"github.com/google/mtail/internal/logline"
	"github.com/google/mtail/internal/metrics"
	"github.com/google/mtail/internal/metrics/datum"
	"github.com/google/mtail/internal/runtime"
	"github.com/google/mtail/internal/zverif/gsx"
	"github.com/google/mtail/internal/zverif/vlib"
	"github.com/google/mtail/internal/zverif/vrt"
	"github.com/google/mtail/internal/zverif/vrt/vsync"
)

func prog(v string) string {
	return "counter n\ngauge last\ncounter ver_" + v + "\n/^(\\d+)$/ {\n  last = $1\n}\n/./ {\n  n++\n  ver_" + v + "++\n}\n"
}

type obs struct {
	N, Sum int64
	Last   int64
	Vers   string
	Err    string
}

func scenario(reloads int, lines []string) (func(), func() obs) {
	var store *metrics.Store
	var errs []string
	body := func() {
		errs = nil
		store = metrics.NewStore()
		in := vrt.MkU(make(chan *logline.LogLine, 1))
		var wg vsync.WaitGroup
		rt, err := runtime.New(in, &wg, "", store)
		if err != nil {
			errs = append(errs, err.Error())
			return
		}
		if err := rt.CompileAndRun("p.mtail", strings.NewReader(prog("a"))); err != nil {
			errs = append(errs, err.Error())
		}
		vrt.Go(func() {
			ctx := context.Background()
			for _, l := range lines {
				vrt.S(in) <- logline.New(ctx, "f", l)
			}
			close(vrt.Cl(in))
		})
		vrt.Go(func() {
			for i := 0; i < reloads; i++ {
				v := string(rune('b' + i))
				if err := rt.CompileAndRun("p.mtail", strings.NewReader(prog(v))); err != nil {
					errs = append(errs, err.Error())
				}
			}
		})
		wg.Wait()
		vrt.Join()
	}
	read := func() obs {
		o := obs{Err: strings.Join(errs, "; ")}
		var vers []string
		for name, ml := range store.Metrics {
			for _, m := range ml {
				for _, lv := range m.LabelValues {
					v := datum.GetInt(lv.Value)
					switch {
					case name == "n":
						o.N += v
					case name == "last":
						o.Last = v
					case strings.HasPrefix(name, "ver_"):
						o.Sum += v
						vers = append(vers, fmt.Sprintf("%s=%d", name, v))
					}
				}
			}
		}
		o.Vers = strings.Join(gsx.Sorted(vers), ",")
		return o
	}
	return body, read
}

func main() {
	c := vlib.Init("exploration")
	type sc struct {
		name    string
		reloads int
		lines   []string
		bound   int
	}
	scs := []sc{
		{"1reload/3lines", 1, []string{"1", "2", "3"}, c.Pick(2, 3)},
		{"2reloads/3lines", 2, []string{"1", "2", "3"}, c.Pick(2, 2)},
		// a single line: its datum is created while the input ends and the reload arrives
		{"1reload/1line", 1, []string{"1"}, c.Pick(2, 5)},
	}
	if c.Thorough() {
		scs = append(scs, sc{"1reload/4lines", 1, []string{"1", "2", "3", "x"}, 3}, sc{"1reload/2lines", 1, []string{"1", "2"}, 4})
	}
	for _, s := range scs {
		s := s
		body, read := scenario(s.reloads, s.lines)
		wantN := int64(len(s.lines))
		var wantLast int64
		for _, l := range s.lines {
			var x int64
			if _, err := fmt.Sscan(l, &x); err == nil {
				wantLast = x
			}
		}
		gsx.Explore(c, gsx.Config{
			Scenario: s.name, Bound: s.bound, MaxSteps: 20000,
			Deadline:      c.Deadline(4*time.Minute, 25*time.Minute),
			Body:          body,
			AllowDeadlock: true,
			AllowLeftover: true,
			Check: func(e vrt.Exec) (key, what, outcome string) {
				o := read()
				if e.Res.Deadlock != "" {
					// The only hang C20 tolerates as out of its scope is the shutdown hang of a
					// reload that lands after end of input (a VM started after the fan-out closed
					// all handles); anything else blocked is a violation.
					for _, l := range strings.Split(strings.TrimSpace(e.Res.Deadlock), "\n") {
						l = strings.TrimSpace(l)
						if (strings.HasPrefix(l, "T0(main)") && (strings.Contains(l, "WaitGroup.Wait") || strings.Contains(l, "Join"))) || (strings.Contains(l, "chan recv") && strings.Contains(l, "runtime/vm/vm.go")) || (strings.Contains(l, "WaitGroup.Wait") && strings.Contains(l, "at runtime/runtime.go")) {
							continue
						}
						return "deadlock " + s.name, "blocked threads:\n" + e.Res.Deadlock, "deadlock"
					}
					o.Vers += " [shutdown-hang: reload after end of input]"
				}
				outcome = fmt.Sprintf("n=%d last=%d %s", o.N, o.Last, o.Vers)
				switch {
				case o.Err != "":
					return "load-error " + s.name, o.Err, outcome
				case o.N != wantN:
					return fmt.Sprintf("n-wrong %s n=%d", s.name, o.N), fmt.Sprintf("shared counter n=%d after %d lines (lost or duplicated line)", o.N, wantN), outcome
				case o.Sum != wantN:
					return fmt.Sprintf("not-exactly-one-version %s sum=%d", s.name, o.Sum), fmt.Sprintf("version counters %s sum to %d, want %d: some line was processed by no version or by two", o.Vers, o.Sum, wantN), outcome
				case o.Last != wantLast:
					return fmt.Sprintf("order %s last=%d", s.name, o.Last), fmt.Sprintf("gauge last=%d but the last line that wrote it carried %d: effects applied out of arrival order", o.Last, wantLast), outcome
				}
				return "", "", outcome
			},
		})
	}
	c.Assume = []string{"scheduling points are the synchronisation operations of metrics, datum, runtime and vm (mutexes, atomics, channels, waitgroups, go); code between two such points runs atomically", "map iteration order is fixed to sorted key order by the engine"}
	gsx.Finish(c, "stateless DFS over schedules of {fan-out, VM run loops, feeder, reloader} with at most `bound` deviations from the default schedule, iteratively from 0; every execution runs the instrumented real code to completion; distinct_nontrivial = distinct final observations (n, last, per-version counters) plus distinct schedules with >=1 deviation")
}
