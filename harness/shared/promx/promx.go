// Package promx collects the Prometheus samples of a store through the real
// exporter's Collect under the gosim scheduler (consumer thread owned by the harness).
package promx

import (
	"context"
	"fmt"
	"sort"
	"strings"

	"github.com/google/mtail/internal/exporter"
	"github.com/google/mtail/internal/metrics"
	"github.com/google/mtail/internal/zverif/vrt"
	"github.com/prometheus/client_golang/prometheus"
	dto "github.com/prometheus/client_model/go"
)

// Collect returns one rendered line per exported sample, sorted.
func Collect(st *metrics.Store, opts ...exporter.Option) ([]string, error) {
	opts = append([]exporter.Option{exporter.Hostname("h"), exporter.DisableExport()}, opts...)
	e, err := exporter.New(context.Background(), st, opts...)
	if err != nil {
		return nil, err
	}
	var out []string
	ch := vrt.MkU(make(chan prometheus.Metric, 1))
	done := vrt.MkU(make(chan struct{}, 1))
	vrt.Go(func() {
		for {
			m, ok := <-vrt.R(ch)
			if !ok {
				break
			}
			var d dto.Metric
			if err := m.Write(&d); err != nil {
				out = append(out, "ERROR "+err.Error())
				continue
			}
			var ls []string
			for _, lp := range d.Label {
				ls = append(ls, fmt.Sprintf("%s=%q", lp.GetName(), lp.GetValue()))
			}
			sort.Strings(ls)
			desc := m.Desc().String()
			name := desc
			if i := strings.Index(desc, `fqName: "`); i >= 0 {
				name = desc[i+9:]
				if j := strings.Index(name, `"`); j >= 0 {
					name = name[:j]
				}
			}
			val := ""
			switch {
			case d.Counter != nil:
				val = fmt.Sprintf("counter %v", d.Counter.GetValue())
			case d.Gauge != nil:
				val = fmt.Sprintf("gauge %v", d.Gauge.GetValue())
			case d.Untyped != nil:
				val = fmt.Sprintf("untyped %v", d.Untyped.GetValue())
			case d.Histogram != nil:
				val = fmt.Sprintf("histogram count=%d sum=%v", d.Histogram.GetSampleCount(), d.Histogram.GetSampleSum())
				for _, b := range d.Histogram.Bucket {
					val += fmt.Sprintf(" le%v=%d", b.GetUpperBound(), b.GetCumulativeCount())
				}
			}
			out = append(out, fmt.Sprintf("%s{%s} %s", name, strings.Join(ls, ","), val))
		}
		close(vrt.Cl(done))
	})
	e.Collect(ch)
	close(vrt.Cl(ch))
	<-vrt.R(done)
	sort.Strings(out)
	return out, nil
}

// ForProg selects the samples carrying prog="name".
func ForProg(samples []string, prog string) string {
	var out []string
	for _, s := range samples {
		if strings.Contains(s, fmt.Sprintf("prog=%q", prog)) {
			out = append(out, s)
		}
	}
	return strings.Join(out, "\n")
}
