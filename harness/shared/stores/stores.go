// Package stores enumerates small metric stores for the exporter checks
// (C12, C13, C22).
package stores

import (
	"fmt"
	"math"
	"time"

	"github.com/google/mtail/internal/metrics"
	"github.com/google/mtail/internal/metrics/datum"
)

type Shape struct {
	Kind metrics.Kind
	Type metrics.Type
}

var Shapes = []Shape{
	{metrics.Counter, metrics.Int},
	{metrics.Counter, metrics.Float},
	{metrics.Gauge, metrics.Int},
	{metrics.Gauge, metrics.Float},
	{metrics.Timer, metrics.Int},
	{metrics.Histogram, metrics.Buckets},
	{metrics.Text, metrics.String},
}

// ShuffledBuckets marks (through the metric name suffix) specs whose histogram ranges are stored out of order.
const ShuffledSuffix = "_shuf"

// MetricSpec is a pure description from which a fresh metrics.Metric is built.
type MetricSpec struct {
	Shape          Shape
	Name           string
	Prog           string
	Keys           []string
	Labels         [][]string // label tuples, in insertion order
	ValRot         int        // rotation into the value table
	ShuffledRanges bool       // histogram ranges stored out of ascending order
}

var IntVals = []int64{0, 1, -1, 7}
var FloatVals = []float64{0, 1.5, -1, 1e300, math.Inf(1), math.NaN(), math.Inf(-1)}
var StrVals = []string{"", "hello", "a b", "\x1b[31mERR\x1b[0m", "q\"uo\\te"}
var ObsSets = [][]float64{{}, {0.5}, {0.5, 1.5, 100}, {-3, 2, math.Inf(1)}, {math.NaN(), 1}}

var Base = time.Unix(1600000000, 0)

// BucketRanges has fractional and large boundaries so that formats which render a boundary into a
// record name are exercised with values whose short renderings collide (0.5/1.5/2.5, 1e6).
var BucketRanges = []datum.Range{{0, 0.5}, {0.5, 1.5}, {1.5, 2.5}, {2.5, 1e6}, {1e6, math.Inf(1)}}

func (s MetricSpec) String() string {
	return fmt.Sprintf("%s/%s name=%q prog=%q keys=%q labels=%q rot=%d", s.Shape.Kind, s.Shape.Type, s.Name, s.Prog, s.Keys, s.Labels, s.ValRot)
}

// Stamp returns the timestamp given to the i-th label set of a metric.
func Stamp(rot, i int) time.Time { return Base.Add(time.Duration(rot*10+i+1) * time.Second) }

func (s MetricSpec) Build() *metrics.Metric {
	m := metrics.NewMetric(s.Name, s.Prog, s.Shape.Kind, s.Shape.Type, s.Keys...)
	m.Source = s.Prog + ":1:1"
	if s.Shape.Type == metrics.Buckets {
		m.Buckets = BucketRanges
		if s.ShuffledRanges {
			// the store accepts ranges in any order; nothing but the DSL front end sorts them
			m.Buckets = []datum.Range{BucketRanges[2], BucketRanges[0], BucketRanges[4], BucketRanges[1], BucketRanges[3]}
		}
	}
	for i, l := range s.Labels {
		d, err := m.GetDatum(l...)
		if err != nil {
			panic(err)
		}
		ts := Stamp(s.ValRot, i)
		k := s.ValRot + i
		switch s.Shape.Type {
		case metrics.Int:
			datum.SetInt(d, IntVals[k%len(IntVals)], ts)
		case metrics.Float:
			datum.SetFloat(d, FloatVals[k%len(FloatVals)], ts)
		case metrics.String:
			datum.SetString(d, StrVals[k%len(StrVals)], ts)
		case metrics.Buckets:
			for _, o := range ObsSets[k%len(ObsSets)] {
				datum.Observe(d, o, ts)
			}
		}
	}
	return m
}

// LabelChoices returns the label-set contents tried for a key list.
func LabelChoices(keys []string, vals []string) [][][]string {
	if len(keys) == 0 {
		return [][][]string{{}, {{}}}
	}
	var tuples [][]string
	if len(keys) == 1 {
		for _, v := range vals {
			tuples = append(tuples, []string{v})
		}
	} else {
		for i, v := range vals {
			tuples = append(tuples, []string{v, vals[(i+1)%len(vals)]})
		}
	}
	out := [][][]string{{}}
	for i := range tuples {
		out = append(out, [][]string{tuples[i]})
		for j := range tuples {
			if i != j {
				out = append(out, [][]string{tuples[i], tuples[j]})
			}
		}
	}
	return out
}

// NewStore builds a store from specs; ok=false if the store refuses a metric.
func NewStore(specs []MetricSpec) (*metrics.Store, []*metrics.Metric, bool) {
	st := metrics.NewStore()
	var ms []*metrics.Metric
	for _, s := range specs {
		m := s.Build()
		if err := st.Add(m); err != nil {
			return nil, nil, false
		}
		ms = append(ms, m)
	}
	return st, ms, true
}
