// Package ctxgen enumerates small well-formed statements placed in a fixed
// program frame (typed captures, metrics declared on demand): every binary
// operator between every pair of atoms, unary forms, constant-only depth-2
// trees, every builtin with 0-3 arguments.  Shared by C03 (compiler
// robustness) and C04 (VM faults).
package ctxgen

import (
	"fmt"
	"regexp"
	"strings"
)

type Prog struct {
	Family, Stmt, Src string
}

var Atoms = []string{"0", "1", "-1", "2", "64", "1.5", "\"s\"", "$1", "$2", "$3", "g", "t", "A", "/x/"}
var Consts = []string{"1", "-1", "2", "70", "1.5", "0"}
var Ops = []string{"+", "-", "*", "/", "%", "**", "<<", ">>", "&", "|", "^", "<", "<=", ">", ">=", "==", "!=", "&&", "||", "=~", "!~"}
var Builtins = []string{"strptime", "timestamp", "len", "tolower", "settime", "getfilename", "int", "float", "string", "strtol", "subst"}

// Lines is the alphabet the frame's pattern matches or misses.
var Lines = []string{"ab 12 1.5", "x 0 0.0", "7 7 7.0", "2020-01-02 3 2.25", "nomatch"}

var idRe = map[string]*regexp.Regexp{}

func has(stmt, id string) bool {
	r, ok := idRe[id]
	if !ok {
		r = regexp.MustCompile(`(^|[^A-Za-z0-9_$"])` + id + `($|[^A-Za-z0-9_"])`)
		idRe[id] = r
	}
	return r.MatchString(stmt)
}

// Wrap places stmt into the frame, declaring only what it uses.
func Wrap(fam, stmt string) Prog {
	var decl strings.Builder
	if has(stmt, "c") {
		decl.WriteString("counter c\n")
	}
	if has(stmt, "g") {
		decl.WriteString("gauge g\n")
	}
	if has(stmt, "t") {
		decl.WriteString("text t\n")
	}
	if has(stmt, "d") {
		decl.WriteString("counter d by k\n")
	}
	if has(stmt, "A") {
		decl.WriteString("const A /a/\n")
	}
	return Prog{fam, stmt, decl.String() + "/^(\\S+) (\\d+) (\\d+\\.\\d+)$/ {\n  " + stmt + "\n}\n"}
}

// WrapElse places stmt in the else branch of the frame's pattern (captures of a pattern that did not match).
func WrapElse(fam, stmt string) Prog {
	p := Wrap(fam, stmt)
	p.Src = strings.Replace(p.Src, " {\n  "+stmt+"\n}\n", " {\n} else {\n  "+stmt+"\n}\n", 1)
	return p
}

// All enumerates the families; ctxs selects how many of the 5 placements are used.
func All(thorough bool) []Prog {
	var out []Prog
	ctxs := []string{"g = %s", "%s {\n  }", "d[%s]++", "t = %s", "c += %s"}
	if !thorough {
		ctxs = ctxs[:3]
	}
	for _, x := range Atoms {
		for _, y := range Atoms {
			for _, o := range Ops {
				for _, cx := range ctxs {
					out = append(out, Wrap("binary-in-context", fmt.Sprintf(cx, x+" "+o+" "+y)))
				}
			}
		}
		for _, cx := range ctxs {
			out = append(out, Wrap("unary-in-context", fmt.Sprintf(cx, "~"+x)))
			out = append(out, Wrap("unary-in-context", fmt.Sprintf(cx, "~ ("+x+" > 1)")))
		}
	}
	// captures (incl. the whole match $0) used where their pattern did not match, and in the matching branch
	for _, cap := range []string{"$0", "$1", "$2", "$3"} {
		for _, st := range []string{"d[" + cap + "]++", "t = " + cap, "g = " + cap, "c += " + cap, "g = len(" + cap + ")", cap + " == \"x\" {\n  }"} {
			out = append(out, WrapElse("capture-in-else", st), Wrap("capture-in-then", st))
		}
	}
	// conditions joined with a pattern constant or literal on either side
	for _, pat := range []string{"A", "/x/", "/7/"} {
		for _, cnd := range []string{"$2 > 5", "$2 < 5", "$1 == \"x\"", "g > 0", "$3 >= 1.5"} {
			for _, lop := range []string{"&&", "||"} {
				out = append(out, Wrap("logical-with-pattern", cnd+" "+lop+" "+pat+" {\n    c++\n  }"))
				out = append(out, Wrap("logical-with-pattern", pat+" "+lop+" "+cnd+" {\n    c++\n  }"))
				out = append(out, Wrap("logical-with-pattern", "("+cnd+") "+lop+" "+pat+" {\n    c++\n  } else {\n    d[$1]++\n  }"))
			}
		}
	}
	for _, x := range Consts {
		for _, y := range Consts {
			for _, z := range Consts {
				for _, o1 := range Ops[:11] {
					for _, o2 := range Ops[:11] {
						out = append(out, Wrap("const-tree", "g = ("+x+" "+o1+" "+y+") "+o2+" "+z))
						if thorough {
							out = append(out, Wrap("const-tree", "g = "+x+" "+o1+" ("+y+" "+o2+" "+z+")"))
							out = append(out, Wrap("const-tree", "("+x+" "+o1+" "+y+") "+o2+" "+z+" > 0 {\n  }"))
						}
					}
				}
			}
		}
	}
	args := append(append([]string{}, Atoms...), "A + \"b\"", "\"b\" + A", "$1 + \"b\"")
	for _, f := range Builtins {
		calls := []string{f + "()"}
		for _, a := range args {
			calls = append(calls, f+"("+a+")")
			for _, b := range args {
				calls = append(calls, f+"("+a+", "+b+")")
				if f == "subst" || f == "strptime" || thorough {
					for _, d := range args {
						calls = append(calls, f+"("+a+", "+b+", "+d+")")
					}
				}
			}
		}
		for _, call := range calls {
			out = append(out, Wrap("builtin-call", "g = "+call), Wrap("builtin-call", "t = "+call), Wrap("builtin-call", call))
		}
	}
	return out
}
