// Package mt drives mtail's real compiler and VM for the /verif harnesses.
package mt

import (
	"context"
	"expvar"
	"fmt"
	"math"
	"sort"
	"strings"
	"time"

	"github.com/google/mtail/internal/logline"
	"github.com/google/mtail/internal/metrics"
	"github.com/google/mtail/internal/metrics/datum"
	"github.com/google/mtail/internal/runtime/code"
	"github.com/google/mtail/internal/runtime/compiler"
	"github.com/google/mtail/internal/runtime/vm"
)

type Prog struct {
	Name string
	Obj  *code.Object
	VM   *vm.VM
}

type Opts struct {
	NoOpt       bool
	Loc         *time.Location
	CurrentYear bool
	HardCrash   bool
}

// Compile compiles src with the real compiler.
func Compile(name, src string, o Opts) (*code.Object, error) {
	var copts []compiler.Option
	if o.NoOpt {
		copts = append(copts, compiler.DisableOptimisation())
	}
	c, err := compiler.New(copts...)
	if err != nil {
		return nil, err
	}
	return c.Compile(name, strings.NewReader(src))
}

func Load(name, src string, o Opts) (*Prog, error) {
	obj, err := Compile(name, src, o)
	if err != nil {
		return nil, err
	}
	if obj == nil {
		return nil, fmt.Errorf("compiler returned neither an object nor errors")
	}
	v := vm.New(name, obj, o.CurrentYear, o.Loc, false, false)
	v.HardCrash = o.HardCrash
	return &Prog{Name: name, Obj: obj, VM: v}, nil
}

func RuntimeErrors(name string) int64 {
	v := vm.ProgRuntimeErrors.Get(name)
	if v == nil {
		return 0
	}
	return v.(*expvar.Int).Value()
}

// Line processes one line and reports how many runtime errors it raised, and
// a recovered panic (only possible with HardCrash).
func (p *Prog) Line(file, line string) (errs int64, panicked interface{}) {
	before := RuntimeErrors(p.Name)
	func() {
		defer func() { panicked = recover() }()
		ctx := context.Background()
		p.VM.ProcessLogLine(ctx, logline.New(ctx, file, line))
	}()
	return RuntimeErrors(p.Name) - before, panicked
}

// Val renders a datum value canonically (NaN-stable, bit-exact floats).
func Val(d datum.Datum) string {
	switch x := d.(type) {
	case *datum.Int:
		return fmt.Sprintf("i:%d", x.Get())
	case *datum.Float:
		f := x.Get()
		if math.IsNaN(f) {
			return "f:NaN"
		}
		return fmt.Sprintf("f:%x", math.Float64bits(f))
	case *datum.String:
		return fmt.Sprintf("s:%q", x.Get())
	case *datum.Buckets:
		var b strings.Builder
		fmt.Fprintf(&b, "h:count=%d sum=%v", x.GetCount(), x.GetSum())
		for _, bc := range x.Buckets {
			fmt.Fprintf(&b, " (%v,%v]=%d", bc.Range.Min, bc.Range.Max, bc.Count)
		}
		return b.String()
	}
	return fmt.Sprintf("?%T", d)
}

// DumpMetrics renders metrics canonically: one line per (metric, label tuple),
// label tuples sorted unless ordered is set.
func DumpMetrics(ms []*metrics.Metric, withTime, withExpiry, ordered bool) string {
	var lines []string
	for _, m := range ms {
		m.RLock()
		head := fmt.Sprintf("%s{%s,%s,keys=%q,hidden=%v,limit=%d}", m.Name, m.Kind, m.Type, m.Keys, m.Hidden, m.Limit)
		var ls []string
		for _, lv := range m.LabelValues {
			s := fmt.Sprintf("%s %q = %s", head, lv.Labels, Val(lv.Value))
			if withTime {
				s += fmt.Sprintf(" @%d", lv.Value.TimeUTC().UnixNano())
			}
			if withExpiry {
				s += fmt.Sprintf(" !%v", lv.Expiry)
			}
			ls = append(ls, s)
		}
		m.RUnlock()
		if !ordered {
			sort.Strings(ls)
		}
		if len(ls) == 0 {
			ls = []string{head + " <no data>"}
		}
		lines = append(lines, ls...)
	}
	if !ordered {
		sort.Strings(lines)
	}
	return strings.Join(lines, "\n")
}

func (p *Prog) Dump(withTime bool) string {
	return DumpMetrics(p.VM.Metrics, withTime, true, false)
}
