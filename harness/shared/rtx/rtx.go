// Package rtx drives the real mtail Runtime (program loader, fan-out, VMs)
// step by step inside a gosim execution: after every operation the harness
// thread waits with vrt.Quiesce until every mtail goroutine is blocked, which
// is exactly "the runtime has observed this step".
package rtx

import (
	"context"
	"crypto/sha256"
	"encoding/hex"
	"expvar"
	"fmt"
	"os"
	"sort"
	"strings"
	"time"

	"github.com/google/mtail/internal/logline"
	"github.com/google/mtail/internal/metrics"
	"github.com/google/mtail/internal/runtime"
	"github.com/google/mtail/internal/zverif/shared/mt"
	"github.com/google/mtail/internal/zverif/vlib"
	"github.com/google/mtail/internal/zverif/vrt"
	"github.com/google/mtail/internal/zverif/vrt/vsync"
)

type RT struct {
	Store *metrics.Store
	R     *runtime.Runtime
	in    chan *logline.LogLine
	wg    vsync.WaitGroup
	Err   error
}

// Start must be called from inside a vrt execution.
func Start(programPath string, opts ...runtime.Option) *RT {
	r := &RT{Store: metrics.NewStore()}
	r.in = vrt.MkU(make(chan *logline.LogLine, 1))
	r.R, r.Err = runtime.New(r.in, &r.wg, programPath, r.Store, opts...)
	vrt.Quiesce()
	return r
}

func (r *RT) Load(name, src string) error {
	err := r.R.CompileAndRun(name, strings.NewReader(src))
	vrt.Quiesce()
	return err
}

func (r *RT) LoadAll() error {
	err := r.R.LoadAllPrograms()
	vrt.Quiesce()
	return err
}

func (r *RT) Unload(name string) {
	r.R.UnloadProgram(name)
	vrt.Quiesce()
}

func (r *RT) Line(file, text string) {
	ctx := context.Background()
	vrt.S(r.in) <- logline.New(ctx, file, text)
	vrt.Quiesce()
}

// Close ends the input and waits for the runtime to shut down.
func (r *RT) Close() {
	close(vrt.Cl(r.in))
	r.wg.Wait()
}

// Fingerprint compiles src on its own and returns the code fingerprint that
// Runtime.VerifHandles reports for a VM running it ("" if it does not compile).
func Fingerprint(src string) string {
	if f, ok := fpCache[src]; ok {
		return f
	}
	p, err := mt.Load("fp.mtail", src, mt.Opts{})
	f := ""
	if err == nil {
		f = runtime.VerifFingerprint(p.VM)
	}
	fpCache[src] = f
	return f
}

var fpCache = map[string]string{}

func Hash(src string) string {
	h := sha256.Sum256([]byte(src))
	return hex.EncodeToString(h[:])
}

// ProgMetrics returns the store's metrics registered for one program, in a stable order.
func (r *RT) ProgMetrics(prog string) []*metrics.Metric {
	var out []*metrics.Metric
	var names []string
	for n := range r.Store.Metrics {
		names = append(names, n)
	}
	sort.Strings(names)
	for _, n := range names {
		for _, m := range r.Store.Metrics[n] {
			if m.Program == prog {
				out = append(out, m)
			}
		}
	}
	return out
}

// DumpProg renders the store contents of one program canonically.
func (r *RT) DumpProg(prog string, withExpiry bool) string {
	return mt.DumpMetrics(r.ProgMetrics(prog), false, withExpiry, false)
}

// Programs lists the program names that own at least one metric in the store.
func (r *RT) Programs() []string {
	set := map[string]bool{}
	for _, ml := range r.Store.Metrics {
		for _, m := range ml {
			set[m.Program] = true
		}
	}
	var out []string
	for p := range set {
		out = append(out, p)
	}
	sort.Strings(out)
	return out
}

// Dump renders the whole store, grouped by program.
func (r *RT) Dump(withExpiry bool) string {
	var b strings.Builder
	for _, p := range r.Programs() {
		fmt.Fprintf(&b, "[%s]\n%s\n", p, r.DumpProg(p, withExpiry))
	}
	return b.String()
}

// Expvar helpers (global counters are read as deltas by the harnesses).
func MapVal(m *expvar.Map, key string) int64 {
	v := m.Get(key)
	if v == nil {
		return 0
	}
	if i, ok := v.(*expvar.Int); ok {
		return i.Value()
	}
	return 0
}

// StateDump renders the complete object graph of the Runtime (handles, VMs,
// compiled programs, store, metrics, data; unexported fields included;
// wall-clock stamps masked) for use in state keys, so that implementation
// state no harness knows about still separates two histories.
func (r *RT) StateDump(mask ...string) string {
	now := time.Now().UnixNano()
	txt := vlib.DeepDumpMask(r.R, startNano-int64(time.Hour), now+int64(time.Hour))
	for _, m := range mask {
		txt = strings.ReplaceAll(txt, m, "MASKED")
	}
	if f := os.Getenv("VERIF_DUMP_STATE"); f != "" {
		_ = os.WriteFile(f, []byte(txt), 0o644)
	}
	h := sha256.Sum256([]byte(txt))
	return hex.EncodeToString(h[:12])
}

var startNano = time.Now().UnixNano()
