// Package tlx drives the real Tailer and its log streams step by step inside
// a gosim execution, on a real file system: harness-owned wakers stand in for
// the poll timers, and after every step the harness wakes the streams and the
// pattern poller and waits (vrt.Quiesce) until every tailer goroutine is
// blocked again — "the tailer has observed this step".
package tlx

import (
	"context"

	"github.com/google/mtail/internal/logline"
	"github.com/google/mtail/internal/tailer"
	"github.com/google/mtail/internal/zverif/vrt"
	"github.com/google/mtail/internal/zverif/vrt/vsync"
)

// Waker is a broadcast waker owned by the harness.
type Waker struct{ ch chan struct{} }

func NewWaker() *Waker { return &Waker{ch: vrt.MkU(make(chan struct{}, 1))} }

func (w *Waker) Wake() <-chan struct{} { return w.ch }

// Broadcast wakes everything currently (or subsequently, until the next call) waiting.
func (w *Waker) Broadcast() {
	old := w.ch
	w.ch = vrt.MkU(make(chan struct{}, 1))
	close(vrt.Cl(old))
}

type Line struct{ File, Text string }

type TL struct {
	T       *tailer.Tailer
	Err     error
	Streams *Waker
	Pattern *Waker
	Lines   []Line
	Closed  bool // the tailer closed its output channel
	cancel  context.CancelFunc
	wg      vsync.WaitGroup
	out     chan *logline.LogLine
	sink    func(*logline.LogLine) // optional: forward instead of collecting
}

// Start creates a Tailer over the patterns.  Must be called inside a vrt execution.
func Start(patterns []string, opts ...tailer.Option) *TL {
	t := &TL{Streams: NewWaker(), Pattern: NewWaker()}
	ctx, cancel := context.WithCancel(context.Background())
	t.cancel = cancel
	t.out = vrt.MkU(make(chan *logline.LogLine, 1))
	vrt.Go(func() {
		for {
			l, ok := <-vrt.R(t.out)
			if !ok {
				t.Closed = true
				return
			}
			t.Lines = append(t.Lines, Line{l.Filename, l.Line})
		}
	})
	all := append([]tailer.Option{tailer.LogPatterns(patterns), tailer.LogstreamPollWaker(t.Streams), tailer.LogPatternPollWaker(t.Pattern)}, opts...)
	t.T, t.Err = tailer.New(ctx, &t.wg, t.out, all...)
	vrt.Quiesce()
	return t
}

// Observe lets the tailer see the current state of the file system: streams
// are woken, then the pattern poller, then the streams once more.
func (t *TL) Observe() {
	t.Streams.Broadcast()
	vrt.Quiesce()
	t.Pattern.Broadcast()
	vrt.Quiesce()
	t.Streams.Broadcast()
	vrt.Quiesce()
}

// Stop cancels the tailer and waits until it has shut down.
func (t *TL) Stop() {
	t.cancel()
	vrt.Quiesce()
	t.Streams.Broadcast()
	vrt.Quiesce()
	t.wg.Wait()
	vrt.Quiesce()
}
