// C07 — timestamps follow strptime/settime and default to processing time.
package main

import (
	"fmt"
	"runtime"
	"strings"
	"sync"
	"time"

	"github.com/google/mtail/internal/metrics"
	"github.com/google/mtail/internal/metrics/datum"
	"github.com/google/mtail/internal/zverif/shared/mt"
	"github.com/google/mtail/internal/zverif/vlib"
)

var layouts = []string{
	time.RFC3339,
	"2006-01-02",
	"2006-02-01",
	"02/Jan/2006:15:04:05 -0700",
	"Jan _2 15:04:05",
	"Jan  2 15:04:05",
	"Jan _2 15:04:05 -0700", // yearless with its own zone offset
	time.ANSIC,
	"2006/01/02 15:04:05",
	"20060102", // digits only: the capture group is typed by its pattern
	time.RFC3339Nano, // long: layout and value together exceed 64 bytes
}

var values = []string{
	"2020-03-04T05:06:07Z",
	"2020-03-04T05:06:07+02:00",
	"2020-03-04",
	"2020-12-11",
	"2020-13-01",
	"04/Mar/2020:05:06:07 +0100",
	"Mar  4 05:06:07",
	"Mar 14 05:06:07",
	"Mar  5 10:00:00 +0530",
	"Wed Mar  4 05:06:07 2020",
	"2020/03/04 05:06:07",
	"20200304",
	"bogus",
	// long values that differ only in their last characters
	"2020-03-04T05:06:07.123456789+01:00",
	"2020-03-04T05:06:07.123456789+05:30",
	"2020-03-04T05:06:07.123456788+01:00",
}

var settimes = []int64{0, 1, -1, 1 << 31, -62135596800 - 1, -62135596800 + 1, 1600000000}

type zone struct {
	name string
	loc  *time.Location
}

func program() string {
	var b strings.Builder
	b.WriteString("gauge ts\ncounter n\n")
	for i, l := range layouts {
		pat := "(.+)"
		if l == "20060102" {
			pat = `(\d+)`
		}
		fmt.Fprintf(&b, "/^L%d %s$/ {\n  strptime($1, \"%s\")\n  ts = timestamp()\n  n++\n}\n", i, pat, l)
	}
	for i, s := range settimes {
		fmt.Fprintf(&b, "/^S%d$/ {\n  settime(%d)\n  ts = timestamp()\n  n++\n}\n", i, s)
	}
	b.WriteString("/^N$/ {\n  ts = timestamp()\n  n++\n}\n")
	return b.String()
}

type ev struct {
	kind   byte // 'L', 'S', 'N'
	li, vi int
}

func (e ev) line() string {
	switch e.kind {
	case 'L':
		return fmt.Sprintf("L%d %s", e.li, values[e.vi])
	case 'S':
		return fmt.Sprintf("S%d", e.li)
	}
	return "N"
}

func refParse(layout, value string, z zone, curYear bool) (time.Time, error) {
	var tm time.Time
	var err error
	if z.loc != nil {
		tm, err = time.ParseInLocation(layout, value, z.loc)
	} else {
		tm, err = time.Parse(layout, value)
	}
	if err != nil {
		return tm, err
	}
	if tm.Year() == 0 && curYear {
		now := time.Now()
		if z.loc != nil {
			now = now.In(z.loc)
		}
		tm = tm.AddDate(now.Year(), 0, 0)
	}
	return tm, nil
}

func metric(p *mt.Prog, name string) *metrics.Metric {
	for _, m := range p.VM.Metrics {
		if m.Name == name {
			return m
		}
	}
	return nil
}

func runSeq(c *vlib.Ctx, w int, src string, z zone, curYear bool, seq []ev) {
	p, err := mt.Load(fmt.Sprintf("w%d", w), src, mt.Opts{Loc: z.loc, CurrentYear: curYear})
	if err != nil {
		c.Report("compile", err.Error(), src)
		return
	}
	mts, mn := metric(p, "ts"), metric(p, "n")
	var hist []string
	for _, e := range seq {
		line := e.line()
		hist = append(hist, line)
		dn, _ := mn.GetDatum()
		nBefore := datum.GetInt(dn)
		t0 := time.Now()
		errs, _ := p.Line("log", line)
		t1 := time.Now()
		dts, _ := mts.GetDatum()
		got := datum.GetInt(dts)
		stamp := dn.TimeUTC()
		advanced := datum.GetInt(dn) == nBefore+1
		cfg := fmt.Sprintf("zone=%s year=%v", z.name, curYear)
		rep := map[string]interface{}{"zone": z.name, "syslog_current_year": curYear, "lines": append([]string{}, hist...)}
		switch e.kind {
		case 'L':
			want, perr := refParse(layouts[e.li], values[e.vi], z, curYear)
			site := fmt.Sprintf("layout=%q value=%q", layouts[e.li], values[e.vi])
			if perr != nil {
				if errs != 1 || advanced {
					report(c, "unparsable-accepted "+site+" "+cfg+prior(hist), fmt.Sprintf("%s does not parse under the layout, but the line raised %d errors and continued=%v (history %q)", site, errs, advanced, hist), rep)
				}
				continue
			}
			if errs != 0 || !advanced {
				report(c, "parsable-rejected "+site+" "+cfg+prior(hist), fmt.Sprintf("%s parses to %v, but the line raised %d errors (history %q): %s", site, want, errs, hist, p.VM.RuntimeErrorString()), rep)
				continue
			}
			if got != want.Unix() {
				report(c, "wrong-instant "+site+" "+cfg+prior(hist), fmt.Sprintf("%s: timestamp() = %d, want %d (%v) (history %q)", site, got, want.Unix(), want, hist), rep)
			} else if !stamp.Equal(want) {
				report(c, "wrong-stamp "+site+" "+cfg+prior(hist), fmt.Sprintf("%s: datum updated afterwards carries %v, want %v", site, stamp, want), rep)
			}
		case 'S':
			n := settimes[e.li]
			if errs != 0 || !advanced {
				c.Report(fmt.Sprintf("settime-error n=%d", n), fmt.Sprintf("settime(%d) raised %d errors: %s", n, errs, p.VM.RuntimeErrorString()), rep)
				continue
			}
			if got != n {
				c.Report(fmt.Sprintf("settime-wrong n=%d", n), fmt.Sprintf("after settime(%d) timestamp() = %d", n, got), rep)
			} else if stamp.Unix() != n {
				c.Report(fmt.Sprintf("settime-stamp n=%d", n), fmt.Sprintf("after settime(%d) the datum carries %v", n, stamp), rep)
			}
		case 'N':
			if errs != 0 || !advanced {
				c.Report("now-error", "line without strptime raised an error", rep)
				continue
			}
			if got < t0.Unix() || got > t1.Unix() {
				report(c, "now-wrong"+prior(hist), fmt.Sprintf("without strptime/settime timestamp() = %d, outside [%d,%d] (history %q)", got, t0.Unix(), t1.Unix(), hist), rep)
			} else if stamp.Before(t0.Add(-time.Second)) || stamp.After(t1.Add(time.Second)) {
				report(c, "now-stamp"+prior(hist), fmt.Sprintf("without strptime/settime the datum carries %v, outside [%v,%v]", stamp, t0, t1), rep)
			}
		}
	}
}

// Violations of a single event in isolation are recorded first (pass 1); the
// same violation after a history is reported under the same key.  A violation
// that only occurs after some history carries that history in its key.
var (
	baseMu   sync.Mutex
	baseViol = map[string]bool{}
	curBase  string
)

func prior(hist []string) string { return "\x00" + fmt.Sprintf(" after=%q", hist[:len(hist)-1]) }

func report(c *vlib.Ctx, key, what string, rep interface{}) {
	base := key
	suffix := ""
	if i := strings.Index(key, "\x00"); i >= 0 {
		base, suffix = key[:i], key[i+1:]
	}
	baseMu.Lock()
	isBase := baseViol[base]
	if suffix == " after=[]" {
		baseViol[base] = true
		isBase = true
	}
	baseMu.Unlock()
	if isBase {
		c.Report(base, what, rep)
	} else {
		c.Report(base+suffix, what, rep)
	}
}

func main() {
	c := vlib.Init("exploration")
	src := program()
	zones := []zone{{"unset", nil}, {"UTC", time.UTC}, {"+05:30", time.FixedZone("IST", 5*3600+1800)}}
	if ny, err := time.LoadLocation("America/New_York"); err == nil {
		zones = append(zones, zone{"America/New_York", ny})
	}
	var evs []ev
	for li := range layouts {
		for vi := range values {
			if layouts[li] == "20060102" && strings.Trim(values[vi], "0123456789") != "" {
				continue // the (\d+) site cannot receive this value
			}
			evs = append(evs, ev{'L', li, vi})
		}
	}
	for si := range settimes {
		evs = append(evs, ev{'S', si, 0})
	}
	evs = append(evs, ev{'N', 0, 0})
	maxLen := c.Pick(2, 3)
	var seqs [][]ev
	var gen func(cur []ev)
	gen = func(cur []ev) {
		if len(cur) > 0 {
			seqs = append(seqs, append([]ev{}, cur...))
		}
		if len(cur) == maxLen {
			return
		}
		for _, e := range evs {
			if c.Thorough() && len(cur) >= 1 && e.kind == 'L' && e.vi%2 == 1 && len(cur) == 2 {
				continue // thorough: third event ranges over half of the values
			}
			gen(append(cur, e))
		}
	}
	gen(nil)
	type job struct {
		z   zone
		cy  bool
		seq []ev
	}
	var jobs []job
	for _, z := range zones {
		for _, cy := range []bool{false, true} {
			for _, s := range seqs {
				jobs = append(jobs, job{z, cy, s})
			}
		}
	}
	// pass 1: single events (establishes the history-independent violations)
	var single, multi []job
	for _, j := range jobs {
		if len(j.seq) == 1 {
			single = append(single, j)
		} else {
			multi = append(multi, j)
		}
	}
	done := func(j job, i int) {
		var ls []string
		for _, e := range j.seq {
			ls = append(ls, e.line())
		}
		c.Eval(fmt.Sprintf("%s|%v|%q", j.z.name, j.cy, ls))
		if i%20011 == 9 {
			c.Sample(map[string]interface{}{"zone": j.z.name, "syslog_current_year": j.cy, "lines": ls})
		}
	}
	vlib.ParallelW(len(single), runtime.NumCPU(), func(w, i int) {
		runSeq(c, w, src, single[i].z, single[i].cy, single[i].seq)
		done(single[i], i)
	})
	// pass 2: longer sequences
	vlib.ParallelW(len(multi), runtime.NumCPU(), func(w, i int) {
		runSeq(c, w, src, multi[i].z, multi[i].cy, multi[i].seq)
		done(multi[i], i)
	})
	// LRU crossing (memo size 64): 70 distinct timestamps, then repeats, one layout and two layouts
	for _, z := range zones {
		p, err := mt.Load("lru", src, mt.Opts{Loc: z.loc})
		if err != nil {
			break
		}
		mts := metric(p, "ts")
		for round := 0; round < 2; round++ {
			for k := 0; k < 70; k++ {
				v := fmt.Sprintf("2020-03-%02d", k%28+1)
				li := 1 + (k/28)%2
				if k >= 56 {
					v = fmt.Sprintf("2021-03-%02d", k%28+1)
					li = 1
				}
				want, perr := refParse(layouts[li], v, z, false)
				errs, _ := p.Line("log", fmt.Sprintf("L%d %s", li, v))
				d, _ := mts.GetDatum()
				if perr == nil && (errs != 0 || datum.GetInt(d) != want.Unix()) {
					c.Report(fmt.Sprintf("lru layout=%q value=%q zone=%s", layouts[li], v, z.name), fmt.Sprintf("in a 140-line run crossing the memo size: timestamp()=%d want %d errs=%d", datum.GetInt(d), want.Unix(), errs), nil)
				}
				c.Eval(fmt.Sprintf("lru|%s|%d|%d", z.name, round, k))
			}
		}
	}
	c.Set("layouts", len(layouts))
	c.Set("values", len(values))
	c.Set("zones", len(zones))
	c.Set("program", src)
	c.Assume = []string{"processing time is bracketed by clock readings around the call, never compared with a deadline", "the year used for yearless layouts is read from the clock by both the VM and the reference; a run across New Year's midnight could disagree"}
	c.Finish("one program with a strptime site per layout (11 layouts), a settime site per n (7 values) and a site without either; all sequences of <=2 (thorough 3) lines over {layout×value (16 values, valid/invalid/ambiguous), settime sites, plain line} × zones {unset, UTC, +05:30, America/New_York} × syslog-current-year on/off; oracle time.Parse/ParseInLocation; plus a 140-line run crossing the memo size. distinct_nontrivial = distinct (zone, option, line sequence)")
}
