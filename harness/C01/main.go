// C01 — compiled programs compute what the language reference says.
// Every program of the mtl families (engine/mtl/gen.go), every line sequence
// up to the bound over the family's alphabet: the real compiler+VM against the
// independent reference interpreter (engine/mtl/eval.go), compared after
// every line.
package main

import (
	"fmt"
	"runtime"
	"sort"
	"strings"
	"time"

	"github.com/google/mtail/internal/zverif/mtl"
	"github.com/google/mtail/internal/zverif/shared/mt"
	"github.com/google/mtail/internal/zverif/vlib"
)

func realDump(p *mt.Prog) string {
	var out []string
	for _, m := range p.VM.Metrics {
		for _, lv := range m.LabelValues {
			v := mt.Val(lv.Value)
			if len(lv.Labels) == 0 && (v == "i:0" || v == "f:0" || v == `s:""`) && lv.Expiry == 0 {
				continue // a dimensionless datum still at its zero value: present or absent is not observable in the reference
			}
			l := fmt.Sprintf("%s %q = %s", m.Name, lv.Labels, v)
			if lv.Expiry != 0 {
				l += " expiry=" + lv.Expiry.String()
			}
			out = append(out, l)
		}
	}
	sort.Strings(out)
	return strings.Join(out, "\n")
}

func refDump(st *mtl.Store) string {
	var out []string
	for name, m := range st.M {
		for k, d := range m {
			v := d.V.String()
			if k == "[]" && (v == "i:0" || v == "f:0" || v == `s:""`) && d.Expiry == "" {
				continue
			}
			l := fmt.Sprintf("%s %s = %s", name, k, v)
			if d.Expiry != "" {
				dur, _ := time.ParseDuration(d.Expiry)
				l += " expiry=" + dur.String()
			}
			out = append(out, l)
		}
	}
	sort.Strings(out)
	return strings.Join(out, "\n")
}

// classify recognises the one recorded control-flow defect by the construct it concerns: every
// metric on which the VM and the reference disagree is a trace counter inside an `otherwise`
// that sits inside an `else` block, and the VM's value is the lower one (the otherwise was
// suppressed).  Anything else keeps its full program text as identity.
func classify(cs mtl.Case, real, ref string) string {
	if cs.Family != "control-flow" {
		return ""
	}
	parse := func(d string) map[string]int64 {
		m := map[string]int64{}
		for _, l := range strings.Split(d, "\n") {
			var name string
			var v int64
			if _, err := fmt.Sscanf(l, "%s [] = i:%d", &name, &v); err == nil {
				m[name] = v
			}
		}
		return m
	}
	r, m := parse(real), parse(ref)
	ctx := mtl.Contexts(cs.P)
	n := 0
	for name := range ctx {
		if r[name] == m[name] {
			continue
		}
		n++
		c := ctx[name]
		i := strings.Index(c, ">else")
		if i < 0 || !strings.HasSuffix(c, ">otherwise") || strings.Contains(c[i:], ">then") || r[name] > m[name] {
			return ""
		}
	}
	if n == 0 {
		return ""
	}
	return "an `otherwise` directly inside an `else` block does not fire (suppressed by a match in the enclosing scope)"
}

func main() {
	c := vlib.Init("exploration")
	cases := mtl.All(c.Thorough())
	maxL := c.Pick(2, 3)
	fam := map[string]int{}
	accepted := 0
	type res struct{ ok bool }
	vlib.ParallelW(len(cases), runtime.NumCPU(), func(w, i int) {
		cs := cases[i]
		src := cs.P.String()
		name := fmt.Sprintf("w%d.mtail", w)
		rep := map[string]interface{}{"family": cs.Family, "program": src}
		if _, err := mt.Load(name, src, mt.Opts{}); err != nil {
			c.Report("rejected "+cs.Family+": "+src, fmt.Sprintf("the compiler rejects a well-typed program of family %s:\n%s\n%v", cs.Family, src, err), rep)
			c.Eval("")
			return
		}
		c.Eval(cs.Family + ":" + src)
		bad := false
		var rec func(seq []string)
		rec = func(seq []string) {
			if bad {
				return
			}
			if len(seq) > 0 {
				p, _ := mt.Load(name, src, mt.Opts{})
				st := mtl.NewStore(cs.P)
				for k, l := range seq {
					e, _ := p.Line("f", l)
					re, msg := mtl.RunLine(cs.P, st, "f", l)
					if k < len(seq)-1 {
						continue
					}
					rd, md := realDump(p), refDump(st)
					rep2 := map[string]interface{}{"family": cs.Family, "program": src, "lines": seq}
					switch {
					case (e != 0) != re:
						bad = true
						c.Report("error-behaviour "+cs.Family+": "+src, fmt.Sprintf("program:\n%slines %q: the VM raised %d runtime errors on the last line (%s); the reference says error=%v (%s)", src, seq, e, p.VM.RuntimeErrorString(), re, msg), rep2)
					case e > 1:
						bad = true
						c.Report("error-count "+cs.Family+": "+src, fmt.Sprintf("program:\n%slines %q: one line raised %d runtime errors", src, seq, e), rep2)
					case rd != md:
						bad = true
						key := "result " + cs.Family + ": " + src
						if cls := classify(cs, rd, md); cls != "" {
							key = "result " + cs.Family + ": " + cls
						}
						c.Report(key, fmt.Sprintf("program:\n%slines %q\nmetrics after the last line:\n%s\nreference semantics:\n%s", src, seq, rd, md), rep2)
					}
				}
				c.Eval("")
			}
			if len(seq) == maxL {
				return
			}
			for _, l := range cs.Lines {
				rec(append(append([]string{}, seq...), l))
			}
		}
		rec(nil)
		if i%397 == 5 {
			c.Sample(map[string]interface{}{"family": cs.Family, "program": src, "lines": cs.Lines})
		}
	})
	for _, cs := range cases {
		fam[cs.Family]++
	}
	// forms written the way the language reference shows them must at least be accepted
	for _, rc := range mtl.GenDocumented() {
		fam["documented-form"]++
		if _, err := mt.Load("doc.mtail", rc.Src, mt.Opts{}); err != nil {
			c.Report("documented-form rejected: "+rc.Name, fmt.Sprintf("a form shown in docs/Language.md is rejected (%s):\n%s\n%v", rc.Name, rc.Src, err), map[string]interface{}{"family": "documented-form", "program": rc.Src})
			c.Eval("")
		} else {
			c.Eval("documented:" + rc.Name)
		}
	}
	_ = accepted
	c.Set("programs", len(cases))
	c.Set("programs_per_family", fam)
	c.Set("max_lines_per_sequence", maxL)
	c.Assume = []string{
		"the reference interpreter follows docs/Language.md; where the reference is silent it uses Go's int64/float64 operators and strconv (listed in engine/mtl/ASSUMPTIONS.md)",
		"operator precedence is the table of the grammar at the pinned commit (logical < bitwise < relational < shift < additive < multiplicative, all left-associative)",
		"a dimensionless datum still at its zero value is not distinguished from an absent one",
		"timestamps are outside this check (C07)",
	}
	c.Finish("every program of the typed families {all binary operators between 10 typed atoms in 4 placements, relational, logical incl. short circuit with an erroring operand, string expressions and builtins, operator-pair precedence with both parenthesisations, control-flow trees (nested conditionals, else, otherwise, stop, distinct trace counter per leaf), decorators with next at every position applied once/twice/nested, declarations x operations (counter/gauge, hidden, 0-2 keys, int/float; ++ -- += = del del-after read-back), effect;runtime-error;effect} x every line sequence of length <= 2 (thorough 3) over the family's alphabet; real compiler+VM against the independent reference interpreter after every line (store contents, runtime-error behaviour); distinct_nontrivial = distinct accepted programs")
}
