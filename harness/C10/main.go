// C10 — garbage collection removes exactly the expired and over-limit data.
// Exhaustive enumeration of small stores; Store.Gc on the real store; stores of up to 3 (thorough: all) data also with every expiry mark set twice (first another duration) as a text metric whose data were re-assigned their own value at the update time, and after a reload with an unchanged declaration (Store.Add take-over) before the collection; a
// set-valued reference decides which survivor sets are admissible.
package main

import (
	"fmt"
	"runtime"
	"sort"
	"strings"
	"time"

	"github.com/google/mtail/internal/metrics"
	"github.com/google/mtail/internal/metrics/datum"
	"github.com/google/mtail/internal/zverif/vlib"
)

type dat struct {
	age    int // minutes before "now"
	expiry int // minutes, 0 = none
}

var ages = []int{150, 90, 30, 31, 32}

// ageDur: ages are minutes, except 31 and 32, which are 30 minutes plus 300 / 600 ms: with the base time ending
// in .9 s these three stamps fall into one wall-clock second and differ only below the second
func ageDur(a int) time.Duration {
	switch a {
	case 31:
		return 30*time.Minute + 300*time.Millisecond
	case 32:
		return 30*time.Minute + 600*time.Millisecond
	}
	return time.Duration(a) * time.Minute
}
var expiries = []int{0, 60, 120}

type store struct {
	Limit int      `json:"limit"`
	Data  []dat    `json:"-"`
	Desc  []string `json:"data(age_min/expiry_min)"`
}

func admissible(limit int, data []dat, survivors []int) (bool, string) {
	n := len(data)
	surv := map[int]bool{}
	for _, i := range survivors {
		surv[i] = true
	}
	expired := func(i int) bool { return data[i].expiry > 0 && data[i].age > data[i].expiry }
	need := 0
	if limit > 0 && n > limit {
		need = n - limit
	}
	// enumerate all limit-removal sets R of size need with max-age ordering respected
	var try func(start int, r []int) bool
	try = func(start int, r []int) bool {
		if len(r) == need {
			inR := map[int]bool{}
			for _, i := range r {
				inR[i] = true
			}
			// every removed is no newer (age >=) than every kept
			for _, i := range r {
				for j := 0; j < n; j++ {
					if !inR[j] && data[i].age < data[j].age {
						return false
					}
				}
			}
			for j := 0; j < n; j++ {
				want := !inR[j] && !expired(j)
				if surv[j] != want {
					return false
				}
			}
			return true
		}
		for i := start; i < n; i++ {
			if try(i+1, append(r, i)) {
				return true
			}
		}
		return false
	}
	if try(0, nil) {
		return true, ""
	}
	return false, fmt.Sprintf("survivors %v are not (initial − %d oldest − expired) for any admissible choice of oldest", survivors, need)
}

func check(c *vlib.Ctx, limit int, data []dat, now time.Time, mode string) {
	s := metrics.NewStore()
	m := metrics.NewMetric("lim", "prog", metrics.Gauge, metrics.Int, "k")
	if mode == "text" {
		m = metrics.NewMetric("lim", "prog", metrics.Text, metrics.String, "k")
	}
	m.Limit = limit
	for i, d := range data {
		dd, _ := m.GetDatum(fmt.Sprintf("d%d", i))
		ts := now.Add(-ageDur(d.age))
		if mode == "text" {
			// written long ago, then assigned the same text again at its real update time
			datum.SetString(dd, fmt.Sprintf("v%d", i), now.Add(-200*time.Minute))
			datum.SetString(dd, fmt.Sprintf("v%d", i), ts)
		} else {
			datum.SetInt(dd, int64(100+i), ts)
		}
		if d.expiry > 0 {
			if mode == "remark" {
				// marked first with the other duration, then re-marked: the last mark counts
				_ = m.ExpireDatum(time.Duration(180-d.expiry)*time.Minute, fmt.Sprintf("d%d", i))
			}
			_ = m.ExpireDatum(time.Duration(d.expiry)*time.Minute, fmt.Sprintf("d%d", i))
		}
	}
	by := metrics.NewMetric("bystander", "prog", metrics.Counter, metrics.Int, "k")
	for i, a := range ages {
		dd, _ := by.GetDatum(fmt.Sprintf("b%d", i))
		datum.SetInt(dd, int64(7+i), now.Add(-ageDur(a)))
	}
	tx := metrics.NewMetric("txt", "other", metrics.Text, metrics.String)
	td, _ := tx.GetDatum()
	datum.SetString(td, "keep", now.Add(-10*time.Hour))
	_ = s.Add(m)
	_ = s.Add(by)
	_ = s.Add(tx)
	if mode == "reloaded" {
		// the program was reloaded with an unchanged declaration before the collection: the data, their stamps
		// and their expiry marks are taken over by the new metric
		m2 := metrics.NewMetric("lim", "prog", metrics.Gauge, metrics.Int, "k")
		m2.Limit = limit
		_ = s.Add(m2)
		m = m2
	}
	desc := make([]string, len(data))
	for i, d := range data {
		desc[i] = fmt.Sprintf("%d/%d", d.age, d.expiry)
	}
	key := fmt.Sprintf("limit=%d data=%s", limit, strings.Join(desc, ","))
	if mode != "plain" {
		key = mode + " " + key
	}
	rep := store{Limit: limit, Desc: desc}
	var perr interface{}
	func() {
		defer func() { perr = recover() }()
		if err := s.Gc(); err != nil {
			perr = err
		}
	}()
	if perr != nil {
		c.Report(key, fmt.Sprintf("Gc failed: %v", perr), rep)
		return
	}
	var surv []int
	for _, lv := range m.LabelValues {
		var i int
		fmt.Sscanf(lv.Labels[0], "d%d", &i)
		surv = append(surv, i)
		if mode == "text" {
			if datum.GetString(lv.Value) != fmt.Sprintf("v%d", i) {
				c.Report(key, "Gc changed a value", rep)
			}
		} else if datum.GetInt(lv.Value) != int64(100+i) {
			c.Report(key, "Gc changed a value", rep)
		}
		wantE := time.Duration(data[i].expiry) * time.Minute
		if lv.Expiry != wantE {
			c.Report(key, "Gc changed an expiry mark", rep)
		}
	}
	sorted := append([]int{}, surv...)
	sort.Ints(sorted)
	for i := 1; i < len(sorted); i++ {
		if sorted[i] == sorted[i-1] {
			c.Report(key, "duplicate survivor", rep)
		}
	}
	// relative order of survivors must be preserved
	if !sort.IntsAreSorted(surv) {
		c.Report(key, fmt.Sprintf("survivor order changed: %v", surv), rep)
	}
	if ok, why := admissible(limit, data, surv); !ok {
		c.Report(key, why, rep)
	}
	if s := m.VerifConsistent(); s != "" {
		c.Report(key, "limited metric inconsistent after Gc: "+s, rep)
	}
	if len(by.LabelValues) != len(ages) || datum.GetInt(by.LabelValues[0].Value) != 7 || datum.GetInt(by.LabelValues[2].Value) != 9 {
		c.Report(key, "bystander metric changed", rep)
	}
	if len(tx.LabelValues) != 1 || datum.GetString(tx.LabelValues[0].Value) != "keep" {
		c.Report(key, "text metric changed", rep)
	}
	if len(s.Metrics) != 3 {
		c.Report(key, "set of metrics changed", rep)
	}
	nontrivial := ""
	if len(surv) != len(data) {
		nontrivial = key
	}
	c.Eval(nontrivial)
}

func main() {
	c := vlib.Init("exploration")
	maxData := c.Pick(4, 5)
	limits := []int{0, 1, 2, 3}
	if c.Thorough() {
		limits = append(limits, 4)
	}
	var per []dat
	for _, a := range ages {
		for _, e := range expiries {
			per = append(per, dat{a, e})
		}
	}
	var all [][]dat
	var gen func(cur []dat, n int)
	gen = func(cur []dat, n int) {
		if len(cur) == n {
			all = append(all, append([]dat{}, cur...))
			return
		}
		for _, d := range per {
			gen(append(cur, d), n)
		}
	}
	for n := 0; n <= maxData; n++ {
		gen(nil, n)
	}
	now := time.Now().Truncate(time.Second).Add(900 * time.Millisecond)
	vlib.Parallel(len(all), runtime.NumCPU(), func(i int) {
		for _, l := range limits {
			check(c, l, all[i], now, "plain")
			if len(all[i]) <= 3 || c.Thorough() {
				check(c, l, all[i], now, "remark")
				check(c, l, all[i], now, "text")
				check(c, l, all[i], now, "reloaded")
			}
		}
		if i%9000 == 50 {
			d := make([]string, len(all[i]))
			for j, x := range all[i] {
				d[j] = fmt.Sprintf("%d/%d", x.age, x.expiry)
			}
			c.Sample(map[string]interface{}{"limits": limits, "data_age_min/expiry_min": d})
		}
	})
	c.Assume = []string{"Gc reads the wall clock; the harness places stamps 30/90/150 minutes before its own clock reading and expiries at 60/120 minutes, so clock drift below 30 minutes during the run cannot change any verdict"}
	c.Finish("all stores with one limited metric (limit 0..3, thorough 0..4) holding 0..4 (thorough 5) data with every combination of age in {150, 90, 30, 30+0.3 s, 30+0.6 s} min (ties included; the last three stamps lie within one second) and expiry mark in {none,1h,2h}, plus an unlimited bystander and a text metric; Gc on the real store; stores of up to 3 (thorough: all) data also with every expiry mark set twice (first another duration) as a text metric whose data were re-assigned their own value at the update time, and after a reload with an unchanged declaration (Store.Add take-over) before the collection; survivors must equal initial − (n−limit oldest, ties either way) − expired, order, values and marks unchanged. distinct_nontrivial = distinct stores where Gc removed something")
}
