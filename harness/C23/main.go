// C23 — formatting a program preserves its meaning.
// For every checker-accepted program of the corpus: parse, check, unparse,
// parse the formatted text again and compare the two syntax trees with a
// structural comparison written for this purpose (positions, symbols and
// inferred types ignored; every declaration attribute, operator, operand
// order, literal and pattern compared); format the reparsed program again and
// require identical text.
package main

import (
	"bytes"
	"fmt"
	"os"
	"os/exec"
	"path/filepath"
	"reflect"
	"runtime"
	"sort"
	"strings"

	"github.com/google/mtail/internal/runtime/compiler/ast"
	"github.com/google/mtail/internal/runtime/compiler/checker"
	"github.com/google/mtail/internal/runtime/compiler/parser"
	"github.com/google/mtail/internal/zverif/mtl"
	"github.com/google/mtail/internal/zverif/vlib"
)

var skipFields = map[string]bool{"P": true, "Symbol": true, "Scope": true, "typ": true, "typMu": true, "Lvalue": true, "Index_": true}

// diff returns "" if a and b are structurally equal, else the path of the first difference.
func diff(a, b reflect.Value, path string) string {
	if !a.IsValid() || !b.IsValid() {
		if a.IsValid() != b.IsValid() {
			return path + ": one side is absent"
		}
		return ""
	}
	if a.Type() != b.Type() {
		return fmt.Sprintf("%s: %s vs %s", path, a.Type(), b.Type())
	}
	switch a.Kind() {
	case reflect.Interface, reflect.Ptr:
		if a.IsNil() || b.IsNil() {
			if a.IsNil() != b.IsNil() {
				return path + ": nil vs non-nil"
			}
			return ""
		}
		return diff(a.Elem(), b.Elem(), path)
	case reflect.Struct:
		t := a.Type()
		if t.PkgPath() != "github.com/google/mtail/internal/runtime/compiler/ast" {
			// foreign structs (positions, mutexes, scopes) carry no syntax
			return ""
		}
		for i := 0; i < a.NumField(); i++ {
			f := t.Field(i)
			if skipFields[f.Name] || f.PkgPath != "" {
				continue
			}
			if d := diff(a.Field(i), b.Field(i), path+"/"+t.Name()+"."+f.Name); d != "" {
				return d
			}
		}
		return ""
	case reflect.Slice:
		if a.Len() != b.Len() {
			return fmt.Sprintf("%s: %d vs %d elements", path, a.Len(), b.Len())
		}
		for i := 0; i < a.Len(); i++ {
			if d := diff(a.Index(i), b.Index(i), fmt.Sprintf("%s[%d]", path, i)); d != "" {
				return d
			}
		}
		return ""
	case reflect.String:
		if a.String() != b.String() {
			return fmt.Sprintf("%s: %q vs %q", path, a.String(), b.String())
		}
	case reflect.Int, reflect.Int8, reflect.Int16, reflect.Int32, reflect.Int64:
		if a.Int() != b.Int() {
			return fmt.Sprintf("%s: %d vs %d", path, a.Int(), b.Int())
		}
	case reflect.Uint, reflect.Uint8, reflect.Uint16, reflect.Uint32, reflect.Uint64:
		if a.Uint() != b.Uint() {
			return fmt.Sprintf("%s: %d vs %d", path, a.Uint(), b.Uint())
		}
	case reflect.Float32, reflect.Float64:
		if a.Float() != b.Float() {
			return fmt.Sprintf("%s: %v vs %v", path, a.Float(), b.Float())
		}
	case reflect.Bool:
		if a.Bool() != b.Bool() {
			return fmt.Sprintf("%s: %v vs %v", path, a.Bool(), b.Bool())
		}
	}
	return ""
}

func parse(src string) (n ast.Node, err error, pan interface{}) {
	defer func() {
		if r := recover(); r != nil {
			pan = r
		}
	}()
	n, err = parser.Parse("p.mtail", strings.NewReader(src))
	return
}

func format(src string) (out string, accepted bool, problem string) {
	defer func() {
		if r := recover(); r != nil {
			problem = fmt.Sprintf("panic while formatting: %v", r)
		}
	}()
	n, err := parser.Parse("p.mtail", strings.NewReader(src))
	if err != nil {
		return "", false, ""
	}
	n, err = checker.Check(n, 0, 0)
	if err != nil {
		return "", false, ""
	}
	up := parser.Unparser{}
	return up.Unparse(n), true, ""
}

type item struct{ family, ident, src string }

// classify groups the differences by the construct the formatter mishandles.
func classify(d string) string {
	switch {
	case strings.Contains(d, "VarDecl.Hidden"):
		return "hidden"
	case strings.Contains(d, "VarDecl.ExportedName"):
		return "exported-name"
	case strings.Contains(d, "VarDecl.Buckets"):
		return "buckets"
	case strings.Contains(d, "StringLit.Text"):
		return "string-literal"
	case strings.Contains(d, "PatternLit.Pattern"):
		return "pattern-literal"
	}
	return ""
}

func main() {
	c := vlib.Init("exploration")
	var items []item
	for _, cs := range mtl.All(c.Thorough()) {
		src := cs.P.String()
		items = append(items, item{"mtl/" + cs.Family, src, src})
	}
	// format family
	add := func(fam, src string) { items = append(items, item{"format/" + fam, src, src}) }
	use := func(kind, name string, keys int) string {
		idx := strings.Repeat("[$1]", keys)
		switch kind {
		case "text":
			return "/(\\w+)/ {\n  " + name + idx + " = $1\n}\n"
		case "histogram":
			return "/(\\d+)/ {\n  " + name + idx + " = $1\n}\n"
		}
		return "/(\\w+)/ {\n  " + name + idx + "++\n}\n"
	}
	for _, kind := range []string{"counter", "gauge", "timer", "text", "histogram"} {
		for _, hidden := range []string{"", "hidden "} {
			for _, as := range []string{"", " as \"exported-name\"", " as \"x y\""} {
				for keys := 0; keys <= 2; keys++ {
					for _, limit := range []string{"", " limit 10"} {
						by := []string{"", " by a", " by a, b"}[keys]
						bks := []string{""}
						if kind == "histogram" {
							bks = []string{" buckets 1, 2, 4", " buckets 0.5, 1.5", " buckets 0.0000001, 0.001, 1", " buckets 1, 1000000, 1e9", " buckets -1, 0, 1"}
						}
						for _, b := range bks {
							if limit != "" && keys == 0 {
								continue
							}
							add("declaration", hidden+kind+" m"+as+by+limit+b+"\n"+use(kind, "m", keys))
						}
					}
				}
			}
		}
	}
	// string literals over {a, ", \, \n-escape} up to length 3
	alpha := []string{"a", "\\\"", "\\\\", "\\n", " "}
	var strs []string
	var gen func(cur string, n int)
	gen = func(cur string, n int) {
		strs = append(strs, cur)
		if n == 0 {
			return
		}
		for _, a := range alpha {
			gen(cur+a, n-1)
		}
	}
	gen("", 3)
	for _, s := range strs {
		add("string-literal", "text t\n/x/ {\n  t = \""+s+"\"\n}\n")
		add("string-literal", "counter c by k\n/x/ {\n  c[\""+s+"\"]++\n}\n")
	}
	// regexes with slashes, escapes, classes
	for _, r := range []string{`a\/b`, `\/`, `[/]x`, `a\\b`, `\d+\.\d+`, `(?P<n>\w+)\s+"q"`, `a|b`, `^$`, `\\\/`, `x{2,3}`} {
		add("pattern", "counter c\n/"+r+"/ {\n  c++\n}\n")
		add("pattern", "counter c\nconst P /"+r+"/\n/^/ + P {\n  c++\n}\n")
		add("pattern", "counter c\n/(\\w+)/ {\n  $1 =~ /"+r+"/ {\n    c++\n  }\n}\n")
		add("pattern", "text t\n/(\\w+)/ {\n  t = subst(/"+r+"/, \"-\", $1)\n}\n")
	}
	// parenthesised sub-expressions that override precedence, every operator pair
	ops := []string{"+", "-", "*", "/", "%", "**", "<<", ">>", "&", "|", "^"}
	for _, o1 := range ops {
		for _, o2 := range ops {
			add("parentheses", "gauge g\n/(\\d+)/ {\n  g = ($1 "+o1+" 7) "+o2+" 2\n}\n")
			add("parentheses", "gauge g\n/(\\d+)/ {\n  g = $1 "+o1+" (7 "+o2+" 2)\n}\n")
			add("parentheses", "gauge g\n/(\\d+)/ {\n  g = $1 "+o1+" 7 "+o2+" 2\n}\n")
			// mixed int/float groups: the checker wraps the promoted operand in a conversion node
			add("parentheses-mixed", "gauge g\n/(\\d+) (\\d+\\.\\d+)/ {\n  g = ($1 "+o1+" 1) "+o2+" 2.5\n}\n")
			add("parentheses-mixed", "gauge g\n/(\\d+) (\\d+\\.\\d+)/ {\n  g = $2 "+o1+" ($1 "+o2+" 3)\n}\n")
			add("parentheses-mixed", "gauge g\n/(\\d+) (\\d+\\.\\d+)/ {\n  g = 0.5 "+o1+" ($1 "+o2+" $2)\n}\n")
		}
		for _, r := range []string{"<", ">=", "==", "!="} {
			add("parentheses", "counter c\n/(\\d+)/ {\n  ($1 "+o1+" 7) "+r+" 2 {\n    c++\n  }\n}\n")
			add("parentheses-mixed", "counter c\n/(\\d+)/ {\n  ($1 "+o1+" 7) "+r+" 2.5 {\n    c++\n  }\n}\n")
			add("parentheses", "counter c\n/(\\d+)/ {\n  $1 "+r+" (7 "+o1+" 2) && ($1 > 1 || $1 < 0) {\n    c++\n  }\n}\n")
		}
	}
	// statements
	add("statement", "counter c by k\n/(\\w+)/ {\n  del c[$1] after 24h\n  c[$1]++\n}\n")
	add("statement", "counter c by k\n/(\\w+)/ {\n  del c[$1]\n}\n")
	add("statement", "counter c by a, b\n/(\\w+) (\\w+)/ {\n  c[$1][$2]++\n}\n")
	add("statement", "counter c\ndef d {\n  /^(\\w+)/ {\n    next\n  }\n}\n@d {\n  /x/ {\n    c++\n  } else {\n    c += 2\n  }\n  otherwise {\n    stop\n  }\n}\n")
	add("statement", "gauge g\n/(\\d+)/ {\n  g = ~$1\n}\n")
	add("statement", "gauge g\n/(\\d+\\.\\d+)/ {\n  g = 1e-7 * $1 + 0.000001\n}\n")
	add("statement", "gauge g\n/(\\d+)/ {\n  g = -1 - -$1\n}\n")
	add("statement", "counter c\ngetfilename() !~ /log/ {\n  stop\n}\n/$/ {\n  c++\n}\n")
	add("statement", "gauge g\n/(?P<ts>\\d+) (\\w+)/ {\n  strptime($ts, \"2006\")\n  settime(int($ts))\n  g = timestamp() + len($2) + strtol($2, 16)\n}\n")
	// examples
	repo := os.Getenv("VERIF_REPO")
	if repo == "" {
		repo = "/repo"
	}
	exs, _ := filepath.Glob(filepath.Join(repo, "examples", "*.mtail"))
	sort.Strings(exs)
	for _, e := range exs {
		if b, err := os.ReadFile(e); err == nil {
			items = append(items, item{"example", filepath.Base(e), string(b)})
		}
	}
	accepted := 0
	// the formatter as users run it: cmd/mfmt built from the tree under test, printing to stdout and with -write
	scratch := os.Getenv("VERIF_SCRATCH")
	if scratch == "" {
		scratch = os.TempDir()
	}
	mfmt := filepath.Join(scratch, "mfmt.bin")
	{
		b := exec.Command("go", "build", "-o", mfmt, "./cmd/mfmt")
		b.Dir = repo
		if out, err := b.CombinedOutput(); err != nil {
			fmt.Printf("ENGINE-ERROR cannot build cmd/mfmt: %v\n%s\n", err, out)
			os.Exit(2)
		}
	}
	viaCommand := func(w, i int, src string) (stdout, written string, err error) {
		f := filepath.Join(scratch, fmt.Sprintf("mfmt.%d.mtail", w))
		if err := os.WriteFile(f, []byte(src), 0o644); err != nil {
			return "", "", err
		}
		var so, se bytes.Buffer
		cmd := exec.Command(mfmt, "-prog", f, "-logtostderr")
		cmd.Stdout, cmd.Stderr = &so, &se
		if err := cmd.Run(); err != nil {
			return "", "", fmt.Errorf("mfmt: %v: %s", err, se.String())
		}
		cmd = exec.Command(mfmt, "-prog", f, "-write", "-logtostderr")
		se.Reset()
		cmd.Stderr = &se
		if err := cmd.Run(); err != nil {
			return "", "", fmt.Errorf("mfmt -write: %v: %s", err, se.String())
		}
		b, _ := os.ReadFile(f)
		return so.String(), string(b), nil
	}
	vlib.ParallelW(len(items), runtime.NumCPU(), func(w, i int) {
		it := items[i]
		rep := map[string]string{"family": it.family, "program": it.src}
		t1, ok, prob := format(it.src)
		// (a process per program is slow: every program with a '%' — the one character a careless print
		// treats specially — and every 16th of the rest)
		if ok && prob == "" && (strings.Contains(it.src, "%") || i%16 == 0) {
			so, wr, err := viaCommand(w, i, it.src)
			switch {
			case err != nil:
				c.Report("mfmt-failed "+it.family+": "+it.ident, fmt.Sprintf("program:\n%s\nthe checker accepts it but the mfmt command fails: %v", it.src, err), rep)
			case so != t1:
				c.Report("mfmt-stdout-differs "+it.family+": "+it.ident, fmt.Sprintf("program:\n%s\nmfmt prints:\n%s\nthe formatter produced:\n%s", it.src, so, t1), rep)
			case wr != t1:
				c.Report("mfmt-write-differs "+it.family+": "+it.ident, fmt.Sprintf("program:\n%s\nmfmt -write left in the file:\n%s\nthe formatter produced:\n%s", it.src, wr, t1), rep)
			}
		}
		if prob != "" {
			c.Report("format-panic "+it.family+": "+it.ident, "program:\n"+it.src+"\n"+prob, rep)
			return
		}
		if !ok {
			c.Eval("")
			return
		}
		accepted++
		c.Eval(it.family + ":" + it.src)
		a1, _, _ := parse(it.src)
		a2, err2, pan2 := parse(t1)
		if err2 != nil || pan2 != nil {
			c.Report("formatted-does-not-parse "+it.family+": "+it.ident, fmt.Sprintf("program:\n%s\nformatted:\n%s\nthe formatted text does not parse: %v %v", it.src, t1, err2, pan2), rep)
			return
		}
		if d := diff(reflect.ValueOf(a1), reflect.ValueOf(a2), ""); d != "" {
			key := "tree-differs " + it.family + ": " + it.ident
			if cls := classify(d); cls != "" {
				key = "tree-differs [" + cls + "] " + it.family + ": " + it.ident
			}
			c.Report(key, fmt.Sprintf("program:\n%s\nformatted:\n%s\nthe formatted text parses to a different tree at %s", it.src, t1, d), rep)
			return
		}
		t2, ok2, prob2 := format(t1)
		if prob2 != "" || !ok2 {
			c.Report("formatted-rejected "+it.family+": "+it.ident, fmt.Sprintf("program:\n%s\nformatted:\n%s\nthe formatted text is not accepted by the checker %s", it.src, t1, prob2), rep)
			return
		}
		if t2 != t1 {
			c.Report("not-idempotent "+it.family+": "+it.ident, fmt.Sprintf("program:\n%s\nformatted once:\n%s\nformatted twice:\n%s", it.src, t1, t2), rep)
		}
		if i%1499 == 3 {
			c.Sample(map[string]string{"family": it.family, "program": it.src, "formatted": t1})
		}
	})
	c.Set("programs", len(items))
	c.Assume = []string{"syntax trees are compared structurally by reflection over every exported field of the ast package's node types except positions, symbols, scopes, inferred types and the l-value flag"}
	c.Finish("every checker-accepted program among: the typed families of C01; a format family (every declaration kind x hidden x as-renaming x 0-2 keys x limit x bucket lists incl. 1e-7 and 1e9 boundaries; string literals over {a, escaped quote, escaped backslash, \\n escape, blank} up to length 3 as values and as index keys; 10 regexes with slashes/escapes as condition, const fragment, match operand and subst argument; every pair of 11 arithmetic/bitwise operators with each explicit parenthesisation and none, against relational and logical operators; del/del-after, multi-key indexing, decorators, else/otherwise/stop, unary ~, small float literals, negative literals, builtins); the example programs: parse -> check -> unparse -> parse gives a structurally equal tree, and formatting the result again gives identical text; the mfmt command built from the tree prints, and with -write leaves in the file, exactly that text (every program containing '%' and every 16th of the others); distinct_nontrivial = distinct accepted programs")
}
