// C13 — Prometheus exposition reflects the store exactly.
package main

import (
	"bytes"
	"context"
	"fmt"
	"math"
	"regexp"
	"runtime"
	"sort"
	"strings"
	"unicode/utf8"

	"github.com/google/mtail/internal/exporter"
	"github.com/google/mtail/internal/metrics"
	"github.com/google/mtail/internal/metrics/datum"
	"github.com/google/mtail/internal/zverif/shared/stores"
	"github.com/google/mtail/internal/zverif/vlib"
	dto "github.com/prometheus/client_model/go"
	"github.com/prometheus/common/expfmt"
)

var nameRe = regexp.MustCompile(`^[a-zA-Z_:][a-zA-Z0-9_:]*$`)
var labelRe = regexp.MustCompile(`^[a-zA-Z_][a-zA-Z0-9_]*$`)

type series struct {
	typ   dto.MetricType
	value float64
	ts    int64 // ms, 0 = none
	hist  string
}

func skey(name string, labels map[string]string) string {
	var ks []string
	for k := range labels {
		ks = append(ks, k)
	}
	sort.Strings(ks)
	var b strings.Builder
	b.WriteString(name)
	b.WriteString("{")
	for _, k := range ks {
		fmt.Fprintf(&b, "%s=%q,", k, labels[k])
	}
	b.WriteString("}")
	return b.String()
}

func feq(a, b float64) bool { return a == b || (math.IsNaN(a) && math.IsNaN(b)) }

func promType(k metrics.Kind) dto.MetricType {
	switch k {
	case metrics.Counter:
		return dto.MetricType_COUNTER
	case metrics.Gauge, metrics.Timer:
		return dto.MetricType_GAUGE
	case metrics.Histogram:
		return dto.MetricType_HISTOGRAM
	}
	return dto.MetricType_UNTYPED
}

// expected computes, independently of the exporter, what the exposition must contain.
// dup reports that two expected series share name and label set (precondition violated).
func expected(ms []*metrics.Metric, omitProg, emitTS bool) (exp map[string]series, dup bool) {
	exp = map[string]series{}
	for _, m := range ms {
		if m.Kind == metrics.Text {
			continue
		}
		name := strings.ReplaceAll(m.Name, "-", "_")
		for _, lv := range m.LabelValues {
			labels := map[string]string{}
			ok := nameRe.MatchString(name)
			if !omitProg {
				labels["prog"] = m.Program
			}
			for i, k := range m.Keys {
				if _, clash := labels[k]; clash {
					ok = false
				}
				if !labelRe.MatchString(k) || strings.HasPrefix(k, "__") {
					ok = false
				}
				if !utf8.ValidString(lv.Labels[i]) {
					ok = false
				}
				labels[k] = lv.Labels[i]
			}
			if m.Kind == metrics.Histogram {
				if _, clash := labels["le"]; clash {
					ok = false
				}
			}
			if !ok {
				continue
			}
			s := series{typ: promType(m.Kind)}
			switch d := lv.Value.(type) {
			case *datum.Int:
				s.value = float64(d.Get())
			case *datum.Float:
				s.value = d.Get()
			case *datum.Buckets:
				// cumulative buckets by upper bound
				type b struct {
					max float64
					n   uint64
				}
				var bs []b
				for r, n := range d.GetBuckets() {
					bs = append(bs, b{r.Max, n})
				}
				sort.Slice(bs, func(i, j int) bool { return bs[i].max < bs[j].max })
				var cum uint64
				var sb strings.Builder
				for _, x := range bs {
					cum += x.n
					if !math.IsInf(x.max, 1) {
						fmt.Fprintf(&sb, "le%v=%d ", x.max, cum)
					}
				}
				fmt.Fprintf(&sb, "count=%d sum=%v", d.GetCount(), d.GetSum())
				s.hist = sb.String()
			}
			if emitTS {
				s.ts = lv.Value.TimeUTC().UnixNano() / 1e6
			}
			k := skey(name, labels)
			if _, d := exp[k]; d {
				dup = true
			}
			exp[k] = s
		}
	}
	return
}

func parse(out []byte) (map[string]series, error) {
	var tp expfmt.TextParser
	fams, err := tp.TextToMetricFamilies(bytes.NewReader(out))
	if err != nil {
		return nil, err
	}
	got := map[string]series{}
	for name, f := range fams {
		for _, m := range f.Metric {
			labels := map[string]string{}
			for _, lp := range m.Label {
				labels[lp.GetName()] = lp.GetValue()
			}
			s := series{typ: f.GetType(), ts: m.GetTimestampMs()}
			switch f.GetType() {
			case dto.MetricType_COUNTER:
				s.value = m.Counter.GetValue()
			case dto.MetricType_GAUGE:
				s.value = m.Gauge.GetValue()
			case dto.MetricType_UNTYPED:
				s.value = m.Untyped.GetValue()
			case dto.MetricType_HISTOGRAM:
				var sb strings.Builder
				prev := uint64(0)
				for _, b := range m.Histogram.Bucket {
					if b.GetCumulativeCount() < prev {
						sb.WriteString("NON-MONOTONE ")
					}
					prev = b.GetCumulativeCount()
					if !math.IsInf(b.GetUpperBound(), 1) {
						fmt.Fprintf(&sb, "le%v=%d ", b.GetUpperBound(), b.GetCumulativeCount())
					} else if b.GetCumulativeCount() != m.Histogram.GetSampleCount() {
						sb.WriteString("INF!=COUNT ")
					}
				}
				fmt.Fprintf(&sb, "count=%d sum=%v", m.Histogram.GetSampleCount(), m.Histogram.GetSampleSum())
				s.hist = sb.String()
			}
			k := skey(name, labels)
			if _, dup := got[k]; dup {
				return nil, fmt.Errorf("duplicate series %s in the output", k)
			}
			got[k] = s
		}
	}
	return got, nil
}

type caseT struct {
	Specs    []string `json:"metrics"`
	OmitProg bool     `json:"omit_prog_label"`
	EmitTS   bool     `json:"emit_timestamp"`
}

func describe(specs []stores.MetricSpec) (d []string, shape string) {
	var sh []string
	for _, s := range specs {
		d = append(d, s.String())
		sh = append(sh, fmt.Sprintf("%s/%s name=%q prog=%q keys=%q", s.Shape.Kind, s.Shape.Type, s.Name, s.Prog, s.Keys))
	}
	return d, strings.Join(sh, " + ")
}

func sameNameDifferentKeys(specs []stores.MetricSpec) bool {
	for i, a := range specs {
		for _, b := range specs[i+1:] {
			if a.Shape.Kind != metrics.Text && b.Shape.Kind != metrics.Text && strings.ReplaceAll(a.Name, "-", "_") == strings.ReplaceAll(b.Name, "-", "_") && fmt.Sprint(a.Keys) != fmt.Sprint(b.Keys) {
				return true
			}
		}
	}
	return false
}

func hyphenCollision(specs []stores.MetricSpec) bool {
	for i, a := range specs {
		for _, b := range specs[i+1:] {
			if a.Shape.Kind != metrics.Text && b.Shape.Kind != metrics.Text && a.Name != b.Name && strings.ReplaceAll(a.Name, "-", "_") == strings.ReplaceAll(b.Name, "-", "_") {
				return true
			}
		}
	}
	return false
}

func histogramWithLeKey(specs []stores.MetricSpec) bool {
	for _, a := range specs {
		if a.Shape.Kind == metrics.Histogram {
			for _, k := range a.Keys {
				if k == "le" {
					return true
				}
			}
		}
	}
	return false
}

func runCase(c *vlib.Ctx, specs []stores.MetricSpec, omitProg, emitTS bool) {
	st, ms, ok := stores.NewStore(specs)
	if !ok {
		c.Eval("")
		return
	}
	exp, dup := expected(ms, omitProg, emitTS)
	if dup {
		c.Eval("") // outside the property's precondition
		return
	}
	var opts []exporter.Option
	opts = append(opts, exporter.Hostname("host"))
	if omitProg {
		opts = append(opts, exporter.OmitProgLabel())
	}
	if emitTS {
		opts = append(opts, exporter.EmitTimestamp())
	}
	e, err := exporter.New(context.Background(), st, opts...)
	if err != nil {
		panic(err)
	}
	defer e.Stop()
	d, shape := describe(specs)
	rep := caseT{d, omitProg, emitTS}
	cfg := fmt.Sprintf("omitprog=%v ts=%v", omitProg, emitTS)
	var buf bytes.Buffer
	werr := e.Write(&buf)
	if werr != nil {
		k := "scrape-failed " + shape + " " + cfg
		if sameNameDifferentKeys(specs) && strings.Contains(werr.Error(), "inconsistent label names or help strings") {
			// one root cause, one key: the Prometheus registry refuses two descriptors
			// with one fully-qualified name and different label names
			k = "scrape-failed: same exported name with different key lists"
		} else if hyphenCollision(specs) {
			k = "scrape-failed: distinct metric names that collide after hyphen replacement"
		}
		c.Report(k, fmt.Sprintf("the scrape failed as a whole: %v\nstore: %v", werr, d), rep)
		c.Eval(strings.Join(d, ";") + cfg)
		return
	}
	got, perr := parse(buf.Bytes())
	if perr != nil {
		k := "unparsable " + shape + " " + cfg
		if histogramWithLeKey(specs) && strings.Contains(perr.Error(), "'le' label") {
			k = "unparsable: histogram with a key named le"
		}
		c.Report(k, fmt.Sprintf("exposition does not parse: %v\n%s", perr, buf.String()), rep)
		return
	}
	for k, es := range exp {
		gs, ok := got[k]
		switch {
		case !ok:
			c.Report("missing "+shape+" "+cfg, fmt.Sprintf("series %s is missing from the exposition\nstore: %v\noutput:\n%s", k, d, buf.String()), rep)
		case gs.typ != es.typ:
			c.Report("type "+shape+" "+cfg, fmt.Sprintf("series %s has type %v, want %v", k, gs.typ, es.typ), rep)
		case es.typ == dto.MetricType_HISTOGRAM && gs.hist != es.hist:
			c.Report("histogram "+shape+" "+cfg, fmt.Sprintf("series %s: got %s want %s", k, gs.hist, es.hist), rep)
		case es.typ != dto.MetricType_HISTOGRAM && !feq(gs.value, es.value):
			c.Report("value "+shape+" "+cfg, fmt.Sprintf("series %s has value %v, want %v", k, gs.value, es.value), rep)
		case gs.ts != es.ts:
			c.Report("timestamp "+shape+" "+cfg, fmt.Sprintf("series %s has timestamp %d ms, want %d ms", k, gs.ts, es.ts), rep)
		}
	}
	for k := range got {
		if _, ok := exp[k]; !ok {
			c.Report("unexpected "+shape+" "+cfg, fmt.Sprintf("series %s is in the exposition but not derivable from the store\nstore: %v", k, d), rep)
		}
	}
	c.Eval(strings.Join(d, ";") + cfg)
}

func main() {
	c := vlib.Init("exploration")
	// the exporter hands its samples to the Prometheus registry, which reads them on goroutines of its own: a fatal
	// error there (e.g. concurrent map access) must come out as a verdict, not as a dead harness
	vlib.Supervise(c, "exposition check aborted by a fatal error in the exporter; see the violation")
	names := []string{"foo", "foo-bar", "9bad", "foo-bar-baz"}
	progs := []string{"p", "q"}
	keyLists := [][]string{{}, {"a"}, {"a", "b"}, {"a-b"}, {"prog"}, {"le"}}
	vals := []string{"x", "", "\xff"}
	var singles []stores.MetricSpec
	for _, sh := range stores.Shapes {
		for _, n := range names {
			for _, p := range progs[:1] {
				for _, ks := range keyLists {
					for _, ls := range stores.LabelChoices(ks, vals) {
						for rot := 0; rot < 7; rot += c.Pick(2, 1) {
							singles = append(singles, stores.MetricSpec{Shape: sh, Name: n, Prog: p, Keys: ks, Labels: ls, ValRot: rot})
							if sh.Type == metrics.Buckets && n == "foo" {
								singles = append(singles, stores.MetricSpec{Shape: sh, Name: n, Prog: p, Keys: ks, Labels: ls, ValRot: rot, ShuffledRanges: true})
							}
						}
					}
				}
			}
		}
	}
	// pairs over a reduced descriptor set
	var red []stores.MetricSpec
	pairKeys := [][]string{{}, {"a"}}
	if c.Thorough() {
		pairKeys = append(pairKeys, []string{"a", "b"}, []string{"prog"})
	}
	for _, sh := range stores.Shapes {
		for _, n := range []string{"foo", "foo-bar", "foo_bar"} {
			for _, p := range progs {
				for _, ks := range pairKeys {
					lc := stores.LabelChoices(ks, []string{"x", "\xff"})
					for li, ls := range lc {
						if c.Quick() && li > 2 && len(ls) < 2 {
							continue
						}
						red = append(red, stores.MetricSpec{Shape: sh, Name: n, Prog: p, Keys: ks, Labels: ls, ValRot: (li + len(n)) % 7})
					}
				}
			}
		}
	}
	type job struct {
		specs []stores.MetricSpec
	}
	var jobs []job
	jobs = append(jobs, job{nil})
	for _, s := range singles {
		jobs = append(jobs, job{[]stores.MetricSpec{s}})
	}
	for i, a := range red {
		for j, b := range red {
			if i >= j {
				continue
			}
			if a.Name == b.Name && a.Prog == b.Prog {
				continue // one program cannot declare a name twice
			}
			jobs = append(jobs, job{[]stores.MetricSpec{a, b}})
		}
	}
	if c.Thorough() {
		// triples over a further reduced set
		var r3 []stores.MetricSpec
		for _, s := range red {
			if (s.Shape.Kind == metrics.Counter && s.Shape.Type == metrics.Int) || s.Shape.Kind == metrics.Histogram || s.Shape.Kind == metrics.Text {
				if len(s.Labels) > 0 && len(s.Keys) <= 1 {
					r3 = append(r3, s)
				}
			}
		}
		for i := range r3 {
			for j := i + 1; j < len(r3); j++ {
				for k := j + 1; k < len(r3); k++ {
					a, b, d := r3[i], r3[j], r3[k]
					if (a.Name == b.Name && a.Prog == b.Prog) || (a.Name == d.Name && a.Prog == d.Prog) || (b.Name == d.Name && b.Prog == d.Prog) {
						continue
					}
					if (i+j+k)%7 != 0 {
						continue
					}
					jobs = append(jobs, job{[]stores.MetricSpec{a, b, d}})
				}
			}
		}
	}
	vlib.Parallel(len(jobs), runtime.NumCPU(), func(i int) {
		for _, op := range []bool{false, true} {
			for _, ts := range []bool{false, true} {
				runCase(c, jobs[i].specs, op, ts)
			}
		}
		if i%9973 == 1 {
			d, _ := describe(jobs[i].specs)
			c.Sample(d)
		}
	})
	c.Set("stores", len(jobs))
	c.Finish("all single-metric stores over 7 kind/type shapes × names {foo, foo-bar, 9bad} × key lists {[], [a], [a,b], [a-b], [prog], [le]} × all label-set contents of size<=2 over values {x, \"\", 0xFF} × value rotations (ints, floats incl. ±Inf/NaN/1e300, histogram observation sets); all pairs (thorough: also a slice of triples) over a reduced descriptor set incl. same-name metrics of two programs; × prog label on/off × timestamps on/off; stores outside the precondition (two expected series with equal name and labels) are skipped. Output parsed with expfmt.TextParser and compared as a set with the series computed independently from the store. distinct_nontrivial = distinct (store, configuration) inside the precondition")
}
