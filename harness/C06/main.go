// C06 — programs are isolated from each other.
// Explicit-state BFS over histories of {load version v under name n, unload n,
// line l} on the real Runtime (gosim default schedule, quiescence after every
// step).  Oracle (differential, no hand-written expectation): for every
// program name, the store contents registered for that name equal the contents
// produced by the *projection* of the history onto that name (its own loads and
// unloads plus all lines) on a fresh Runtime.  The only tolerated interaction
// is a load refused because another program holds the name with another kind.
package main

import (
	"fmt"
	"strings"
	"time"

	"github.com/google/mtail/internal/zverif/hsx"
	"github.com/google/mtail/internal/zverif/shared/promx"
	"github.com/google/mtail/internal/zverif/shared/rtx"
	"github.com/google/mtail/internal/zverif/vlib"
)

type version struct{ id, src string }

var versions = []version{
	{"intAdd", "counter foo\n/^(\\d+)$/ {\n  foo += $1\n}\n"},
	{"int100", "counter foo\n/./ {\n  foo += 100\n}\n"},
	{"float", "counter foo\n/^(\\d+)$/ {\n  foo += 0.5\n}\n"},
	{"gauge", "gauge foo\n/^(\\d+)$/ {\n  foo = $1\n}\n"},
	{"broken", "counter foo\n/./ {\n"},
	{"errs", "counter seen\ncounter foo\n/^(\\w+)$/ {\n  seen++\n  foo += int($1)\n}\n"},
	{"byk", "counter foo by k\n/^(\\w+)$/ {\n  foo[$1]++\n}\n"},
	{"text", "text foo\n/^(\\w+)$/ {\n  foo = $1\n}\n"},
}

type op struct {
	kind string // load, unload, line
	name string
	ver  int
	line string
}

func (o op) String() string {
	switch o.kind {
	case "load":
		return fmt.Sprintf("load(%s as %s)", versions[o.ver].id, o.name)
	case "unload":
		return "unload(" + o.name + ")"
	}
	return fmt.Sprintf("line(%q)", o.line)
}

type outcome struct {
	dumps   map[string]string // per program name
	loaded  map[string]string
	hidden  string // hash of the full Runtime object graph
	refused []bool // per op: load refused for a kind clash
	errs    []string
	bad     string // engine anomaly
	applic  bool
}

// execute runs ops on a fresh Runtime.  skip[i] = true omits op i (used by the
// projection to leave out loads that the full run saw refused).
func execute(ops []op, skip []bool, names []string) outcome {
	o := outcome{dumps: map[string]string{}, applic: true}
	res := hsx.Exec(200000, func() {
		rt := rtx.Start("")
		if rt.Err != nil {
			o.bad = rt.Err.Error()
			return
		}
		for i, p := range ops {
			refused := false
			e := ""
			if skip == nil || !skip[i] {
				switch p.kind {
				case "load":
					if err := rt.Load(p.name, versions[p.ver].src); err != nil {
						e = err.Error()
						refused = strings.Contains(e, "different kind")
					}
				case "unload":
					if _, ok := rt.R.VerifHandles()[p.name]; !ok {
						o.applic = false
						return
					}
					rt.Unload(p.name)
				case "line":
					rt.Line("f", p.line)
				}
			}
			o.refused = append(o.refused, refused)
			o.errs = append(o.errs, e)
		}
		samples, perr := promx.Collect(rt.Store)
		if perr != nil {
			o.bad = "exporter: " + perr.Error()
		}
		for _, n := range names {
			o.dumps[n] = rt.DumpProg(n, false) + "\n-- Prometheus samples with prog=" + n + ":\n" + promx.ForProg(samples, n)
		}
		o.loaded = rt.R.VerifHandles()
		o.hidden = rt.StateDump()
	})
	if a := hsx.Anomaly(res); a != "" && o.bad == "" {
		o.bad = a
	}
	return o
}

func mkConfig(c *vlib.Ctx, cname string, names []string, vers []int, lines []string, depth int) hsx.Config {
	var ops []op
	for _, n := range names {
		for _, v := range vers {
			ops = append(ops, op{kind: "load", name: n, ver: v})
		}
		ops = append(ops, op{kind: "unload", name: n})
	}
	for _, l := range lines {
		ops = append(ops, op{kind: "line", line: l})
	}
	opNames := make([]string, len(ops))
	for i, o := range ops {
		opNames[i] = o.String()
	}
	return hsx.Config{
		Name: cname, Ops: opNames, MaxDepth: depth,
		Deadline: c.Deadline(6*time.Minute, 40*time.Minute),
		Run: func(hist []int) hsx.Result {
			h := make([]op, len(hist))
			var hs []string
			for i, x := range hist {
				h[i] = ops[x]
				hs = append(hs, ops[x].String())
			}
			full := execute(h, nil, names)
			if !full.applic {
				return hsx.Result{}
			}
			hstr := strings.Join(hs, " ; ")
			if full.bad != "" {
				first := strings.SplitN(full.bad, "\n", 2)[0]
				return hsx.Result{Violation: "history " + hstr + "\n" + full.bad, VKey: "anomaly " + cname + " " + first + " after " + hstr}
			}
			// a refusal is tolerated only when another program's metric of a different kind holds the name;
			// every version declares `foo` (and possibly `seen`), so "another program owns some foo" is the test.
			for i, p := range h {
				if !full.refused[i] {
					if full.errs[i] != "" && versions[p.ver].id != "broken" {
						return hsx.Result{Violation: fmt.Sprintf("history %s\nload %s failed: %s", hstr, p, full.errs[i]), VKey: fmt.Sprintf("load-failed %s in %s", p, hstr)}
					}
					continue
				}
			}
			key := "impl=" + full.hidden + "\n"
			for _, n := range names {
				key += fmt.Sprintf("[%s %s]\n%s\n", n, full.loaded[n], full.dumps[n])
			}
			for _, n := range names {
				// projection onto n
				var ph []op
				var skip []bool
				own := false
				for i, p := range h {
					if p.kind == "line" || p.name == n {
						ph = append(ph, p)
						skip = append(skip, full.refused[i])
						if p.kind != "line" {
							own = true
						}
					}
				}
				if !own {
					if !strings.HasPrefix(full.dumps[n], "\n-- Prometheus samples with prog="+n+":\n") || !strings.HasSuffix(full.dumps[n], ":\n") {
						return hsx.Result{Violation: fmt.Sprintf("history %s\nprogram %s was never loaded but owns metrics:\n%s", hstr, n, full.dumps[n]), VKey: "phantom-metrics " + n + " " + hstr}
					}
					continue
				}
				alone := execute(ph, skip, []string{n})
				if alone.bad != "" {
					first := strings.SplitN(alone.bad, "\n", 2)[0]
					return hsx.Result{Violation: "projection of " + hstr + " onto " + n + "\n" + alone.bad, VKey: "anomaly-alone " + first}
				}
				if alone.dumps[n] != full.dumps[n] || alone.loaded[n] != full.loaded[n] {
					return hsx.Result{
						Violation: fmt.Sprintf("history: %s\nmetrics of program %s in company:\n%s\nrunning version: %s\nmetrics of program %s when the same loads/unloads/lines happen to it alone:\n%s\nrunning version: %s", hstr, n, full.dumps[n], short(full.loaded[n]), n, alone.dumps[n], short(alone.loaded[n])),
						VKey:      fmt.Sprintf("not-isolated %s: %s", n, hstr),
					}
				}
			}
			note := "clean"
			for _, r := range full.refused {
				if r {
					note = "with-kind-clash-refusal"
				}
			}
			return hsx.Result{Key: key, Note: note}
		},
	}
}

func short(s string) string {
	if len(s) > 8 {
		return s[:8]
	}
	if s == "" {
		return "<none>"
	}
	return s
}

func main() {
	hsx.QuietGlog()
	c := vlib.Init("model_checking")
	var cfgs []hsx.Config
	if c.Quick() {
		cfgs = append(cfgs,
			mkConfig(c, "2names/8versions/depth4", []string{"a.mtail", "b.mtail"}, []int{0, 1, 2, 3, 4, 5, 6, 7}, []string{"1", "x"}, 4),
			mkConfig(c, "3names/4versions/depth3", []string{"a.mtail", "b.mtail", "c.mtail"}, []int{0, 1, 3, 6}, []string{"2"}, 3),
		)
	} else {
		cfgs = append(cfgs,
			mkConfig(c, "2names/8versions/depth5", []string{"a.mtail", "b.mtail"}, []int{0, 1, 2, 3, 4, 5, 6, 7}, []string{"1", "x"}, 5),
			mkConfig(c, "3names/5versions/depth4", []string{"a.mtail", "b.mtail", "c.mtail"}, []int{0, 1, 3, 4, 6}, []string{"2"}, 4),
			mkConfig(c, "2names/4versions/depth6", []string{"a.mtail", "b.mtail"}, []int{0, 1, 3, 6}, []string{"2"}, 6),
		)
	}
	c.Assume = []string{
		"histories run under the default (deviation-free) schedule of the controlled scheduler with a quiescence barrier after every step; schedule-dependent interference is the subject of C11/C20",
		"a load refused with 'different kind' is treated as the permitted interaction whenever it occurs; the projection then omits that load",
		"state de-duplication uses the observable state (per-program store contents and the content hash of each running version)",
	}
	hsx.Explore(c, "explicit-state BFS over histories of {load(version as name), unload(name), line} on the real Runtime; versions all declare a metric named foo (int counter ×2 sources, float counter, gauge, text, dimensioned counter, one that raises runtime errors, one that does not compile); every transition re-executes the history on a fresh Runtime under the controlled scheduler and compares, per program name, the store contents and the Prometheus samples carrying its prog label (real Collect) with those of the history projected onto that name (differential oracle); states are de-duplicated on the observable store + running versions", cfgs...)
}
