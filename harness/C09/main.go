// C09 — a metric behaves as an insertion-ordered map from label tuples to
// (value, timestamp, expiry).  Explicit-state BFS over operation histories on
// the real metrics.Metric against an ordered-list model, to fixpoint.
package main

import (
	"encoding/json"
	"fmt"
	"os"
	"strings"
	"time"

	"github.com/google/mtail/internal/metrics"
	"github.com/google/mtail/internal/metrics/datum"
	"github.com/google/mtail/internal/zverif/seqx"
	"github.com/google/mtail/internal/zverif/vlib"
)

var (
	T1 = time.Unix(1000000000, 0)
	T2 = time.Unix(1100000000, 0)
)

const (
	tsEpoch = iota // never stamped (buckets)
	tsT1
	tsT2
	tsNow
)

type entry struct {
	t      []string
	val    string // ValueString-compatible rendering
	cnt    int    // histogram count
	ts     int
	expiry time.Duration
}

type cfg struct {
	name  string
	kind  metrics.Kind
	typ   metrics.Type
	arity int
}

type opKind int

const (
	opGet opKind = iota
	opW1
	opW2
	opRemove
	opExpire
	opOldest
	opGetBad
	opRemoveBad
	opExpireBad
	opTakeover
	opExpire0 // an expiry mark of zero: replaces (clears) an earlier mark, still an error on an absent tuple
)

type op struct {
	k opKind
	t []string
}

func (o op) String() string {
	n := []string{"get", "write1@T1", "write2@T2", "remove", "expire1h", "removeOldest", "get-wrong-arity", "remove-wrong-arity", "expire-wrong-arity", "taken-over-by-reloaded-declaration", "expire0"}[o.k]
	if o.k == opOldest || o.k == opTakeover {
		return n
	}
	return fmt.Sprintf("%s%q", n, o.t)
}

func mkOps(arity int) []op {
	wide := arity == 14
	defer func() { _ = wide }()
	var tl [][]string
	switch arity {
	case 0:
		tl = [][]string{{}}
	case 1:
		tl = [][]string{{"a"}, {"b"}, {"c"}}
	case 14:
		tl = [][]string{{"a"}, {"b"}, {"c"}, {"d"}}
	case 2:
		tl = [][]string{{"a", "b"}, {"b", "a"}, {"a", ""}}
	case 22: // tuples made of the separator and the escape character of the label key encoding
		tl = [][]string{{"\\", "-"}, {"-\\", ""}, {"-", "-"}}
	}
	var ops []op
	for _, k := range []opKind{opGet, opW1, opW2, opRemove, opExpire, opExpire0} {
		for _, t := range tl {
			ops = append(ops, op{k, t})
		}
	}
	ops = append(ops, op{opOldest, nil}, op{opTakeover, nil})
	if arity == 14 {
		arity = 1
	}
	if arity == 22 {
		arity = 2
	}
	bad := append(append([]string{}, tl[0]...), "x")
	ops = append(ops, op{opGetBad, bad}, op{opRemoveBad, bad}, op{opExpireBad, bad})
	if arity > 0 {
		short := tl[0][:arity-1]
		ops = append(ops, op{opGetBad, short}, op{opRemoveBad, short}, op{opExpireBad, short})
	}
	return ops
}

func teq(a, b []string) bool {
	if len(a) != len(b) {
		return false
	}
	for i := range a {
		if a[i] != b[i] {
			return false
		}
	}
	return true
}

type model struct {
	c cfg
	e []*entry
}

func (m *model) find(t []string) int {
	for i, e := range m.e {
		if teq(e.t, t) {
			return i
		}
	}
	return -1
}

func (m *model) zero() *entry {
	switch m.c.typ {
	case metrics.Int:
		return &entry{val: "0", ts: tsNow}
	case metrics.Float:
		return &entry{val: "0", ts: tsNow}
	case metrics.String:
		return &entry{val: "", ts: tsNow}
	default:
		return &entry{val: "0", ts: tsEpoch}
	}
}

func (m *model) get(t []string) *entry {
	if i := m.find(t); i >= 0 {
		return m.e[i]
	}
	e := m.zero()
	e.t = t
	m.e = append(m.e, e)
	return e
}

// apply returns whether the real operation is expected to return an error.
func (m *model) apply(o op) (wantErr bool) {
	switch o.k {
	case opGet:
		m.get(o.t)
	case opW1:
		e := m.get(o.t)
		e.ts = tsT1
		switch m.c.typ {
		case metrics.Int, metrics.Float:
			e.val = "1"
		case metrics.String:
			e.val = "one"
		case metrics.Buckets:
			e.cnt++
			e.val = addf(e.val, 1)
		}
	case opW2:
		e := m.get(o.t)
		e.ts = tsT2
		switch m.c.typ {
		case metrics.Int:
			var x int64
			fmt.Sscan(e.val, &x)
			if x < 2 {
				e.val = fmt.Sprint(x + 1)
			} else {
				e.val = fmt.Sprint(x - 2)
			}
		case metrics.Float:
			e.val = "2.5"
		case metrics.String:
			e.val = "two"
		case metrics.Buckets:
			e.cnt++
			e.val = addf(e.val, 2)
		}
	case opRemove:
		if i := m.find(o.t); i >= 0 {
			m.e = append(m.e[:i:i], m.e[i+1:]...)
		}
	case opExpire:
		i := m.find(o.t)
		if i < 0 {
			return true
		}
		m.e[i].expiry = time.Hour
	case opExpire0:
		i := m.find(o.t)
		if i < 0 {
			return true
		}
		m.e[i].expiry = 0
	case opOldest:
		best := -1
		for i, e := range m.e {
			if best < 0 || e.ts < m.e[best].ts {
				best = i
			}
		}
		if best >= 0 {
			m.e = append(m.e[:best:best], m.e[best+1:]...)
		}
	case opGetBad, opRemoveBad, opExpireBad:
		return true
	}
	return false
}

func addf(s string, d float64) string {
	var x float64
	fmt.Sscan(s, &x)
	return fmt.Sprintf("%g", x+d)
}

func (m *model) key() string {
	var b strings.Builder
	for _, e := range m.e {
		fmt.Fprintf(&b, "%q=%s/%d@%d!%d;", e.t, e.val, e.cnt, e.ts, e.expiry)
	}
	return b.String() + "."
}

func realApply(c cfg, m *metrics.Metric, o op) error {
	switch o.k {
	case opGet, opGetBad:
		_, err := m.GetDatum(o.t...)
		return err
	case opW1, opW2:
		d, err := m.GetDatum(o.t...)
		if err != nil {
			return err
		}
		one := o.k == opW1
		ts := T2
		if one {
			ts = T1
		}
		switch c.typ {
		case metrics.Int:
			if one {
				datum.SetInt(d, 1, ts)
			} else {
				if datum.GetInt(d) < 2 {
					datum.IncIntBy(d, 1, ts)
				} else {
					datum.DecIntBy(d, 2, ts)
				}
			}
		case metrics.Float:
			if one {
				datum.SetFloat(d, 1, ts)
			} else {
				datum.SetFloat(d, 2.5, ts)
			}
		case metrics.String:
			if one {
				datum.SetString(d, "one", ts)
			} else {
				datum.SetString(d, "two", ts)
			}
		case metrics.Buckets:
			if one {
				datum.Observe(d, 1, ts)
			} else {
				datum.Observe(d, 2, ts)
			}
		}
		return nil
	case opRemove, opRemoveBad:
		return m.RemoveDatum(o.t...)
	case opExpire, opExpireBad:
		return m.ExpireDatum(time.Hour, o.t...)
	case opExpire0:
		return m.ExpireDatum(0, o.t...)
	case opOldest:
		m.RemoveOldestDatum()
	}
	return nil
}

func tsClass(t time.Time) int {
	switch {
	case t.Equal(T1):
		return tsT1
	case t.Equal(T2):
		return tsT2
	case t.Unix() == 0:
		return tsEpoch
	case t.After(T2):
		return tsNow
	}
	return -1
}

// compare the full observable state of the real metric with the model.
func compare(c cfg, m *metrics.Metric, mo *model) string {
	if s := m.VerifConsistent(); s != "" {
		return "slice/index: " + s
	}
	ch := make(chan *metrics.LabelSet)
	go m.EmitLabelSets(ch)
	var ls []*metrics.LabelSet
	for l := range ch {
		ls = append(ls, l)
	}
	if len(ls) != len(mo.e) {
		return fmt.Sprintf("enumeration lists %d label sets, model has %d", len(ls), len(mo.e))
	}
	for i, e := range mo.e {
		l := ls[i]
		if len(l.Labels) != len(m.Keys) && !(len(m.Keys) == 2 && m.Keys[0] == m.Keys[1]) {
			return fmt.Sprintf("label set %d has %d labels", i, len(l.Labels))
		}
		for j, k := range m.Keys {
			if l.Labels[k] != e.t[j] {
				return fmt.Sprintf("label set %d: %s=%q, model %q", i, k, l.Labels[k], e.t[j])
			}
		}
		if l.Datum.ValueString() != e.val {
			return fmt.Sprintf("label set %d %q: value %s, model %s", i, e.t, l.Datum.ValueString(), e.val)
		}
		if c.typ == metrics.Buckets && int(datum.GetBucketsCount(l.Datum)) != e.cnt {
			return fmt.Sprintf("label set %d: count %d, model %d", i, datum.GetBucketsCount(l.Datum), e.cnt)
		}
		if tc := tsClass(l.Datum.TimeUTC()); tc != e.ts {
			return fmt.Sprintf("label set %d %q: timestamp class %d (%v), model %d", i, e.t, tc, l.Datum.TimeUTC(), e.ts)
		}
		lv := m.LabelValues[i]
		if lv.Value != l.Datum || !teq(lv.Labels, e.t) {
			return fmt.Sprintf("LabelValues[%d] does not match enumeration", i)
		}
		if lv.Expiry != e.expiry {
			return fmt.Sprintf("label set %d %q: expiry %v, model %v", i, e.t, lv.Expiry, e.expiry)
		}
	}
	b, err := json.Marshal(m)
	if err != nil {
		return "marshal: " + err.Error()
	}
	var dec struct {
		Name        string
		LabelValues []struct {
			Labels []string
			Value  map[string]interface{}
			Expiry int64
		}
	}
	if err := json.Unmarshal(b, &dec); err != nil {
		return "unmarshal of own JSON: " + err.Error()
	}
	if len(dec.LabelValues) != len(mo.e) {
		return fmt.Sprintf("JSON lists %d label values, model %d", len(dec.LabelValues), len(mo.e))
	}
	for i, e := range mo.e {
		if !teq(dec.LabelValues[i].Labels, e.t) && !(len(e.t) == 0 && len(dec.LabelValues[i].Labels) == 0) {
			return fmt.Sprintf("JSON label value %d has labels %q, model %q", i, dec.LabelValues[i].Labels, e.t)
		}
		if time.Duration(dec.LabelValues[i].Expiry) != e.expiry {
			return fmt.Sprintf("JSON label value %d expiry %d, model %d", i, dec.LabelValues[i].Expiry, e.expiry)
		}
	}
	return ""
}

func newReal(c cfg) *metrics.Metric {
	ar := c.arity
	if ar == 14 {
		ar = 1
	}
	if ar == 22 {
		ar = 2
	}
	keys := []string{"k0", "k1"}[:ar]
	m := metrics.NewMetric("m", "prog", c.kind, c.typ, keys...)
	if c.typ == metrics.Buckets {
		m.Buckets = []datum.Range{{0, 1}, {1, 2}}
	}
	return m
}

var startNano = time.Now().UnixNano()

func main() {
	c := vlib.Init("model_checking")
	cfgs := []cfg{
		{"counter/int/1key", metrics.Counter, metrics.Int, 1},
		{"gauge/float/1key", metrics.Gauge, metrics.Float, 1},
		{"text/string/1key", metrics.Text, metrics.String, 1},
		{"histogram/buckets/1key", metrics.Histogram, metrics.Buckets, 1},
		{"gauge/int/0key", metrics.Gauge, metrics.Int, 0},
		{"counter/int/0key", metrics.Counter, metrics.Int, 0},
		{"timer/int/2key", metrics.Timer, metrics.Int, 2},
		{"counter/float/2key", metrics.Counter, metrics.Float, 2},
		{"histogram/buckets/0key", metrics.Histogram, metrics.Buckets, 0},
		{"counter/int/2key/separator-and-escape-labels", metrics.Counter, metrics.Int, 22},
	}
	maxDepth := 0 // to fixpoint in both tiers
	if d := os.Getenv("C09_DEPTH"); d != "" {
		fmt.Sscan(d, &maxDepth)
	}
	if c.Thorough() {
		cfgs = append(cfgs, cfg{"gauge/float/1key/4tuples", metrics.Gauge, metrics.Float, 14}, cfg{"text/string/1key/4tuples", metrics.Text, metrics.String, 14})
	}
	totStates, totTrans, maxD := 0, 0, 0
	exh := true
	for _, cf := range cfgs {
		cf := cf
		ops := mkOps(cf.arity)
		run := func(h []int) seqx.Result {
			real := newReal(cf)
			mo := &model{c: cf}
			for i, oi := range h {
				o := ops[oi]
				if cf.typ == metrics.Buckets && (o.k == opW1 || o.k == opW2) {
					if j := mo.find(o.t); j >= 0 && mo.e[j].cnt >= 2 {
						return seqx.Result{} // bound: at most two observations per datum
					}
				}
				wantErr := mo.apply(o)
				if o.k == opTakeover {
					// a reload of the program: a freshly compiled metric of the same declaration takes over the
					// label values through Store.Add (scalar counters and histograms come with their datum
					// pre-created, as the code generator does); the model is unchanged
					st := metrics.NewStore()
					_ = st.Add(real)
					m2 := newReal(cf)
					m2.SetSource(real.Source)
					if len(m2.Keys) == 0 && (cf.kind == metrics.Counter || cf.kind == metrics.Histogram) {
						_, _ = m2.GetDatum()
						mo.get([]string{}) // the declaration comes with its (zero) datum
					}
					if err := st.Add(m2); err != nil {
						return seqx.Result{Violation: "take-over failed: " + err.Error(), VKey: cf.name + " takeover-error"}
					}
					real = m2
				}
				before := len(real.LabelValues)
				err := realApply(cf, real, o)
				last := i == len(h)-1
				if (err != nil) != wantErr {
					if !last {
						return seqx.Result{}
					}
					return seqx.Result{Violation: fmt.Sprintf("%s: error=%v, model expects error=%v", o, err, wantErr), VKey: fmt.Sprintf("%s err-mismatch %s", cf.name, o)}
				}
				if wantErr && len(real.LabelValues) != before && last {
					return seqx.Result{Violation: fmt.Sprintf("%s: rejected but changed the metric", o), VKey: fmt.Sprintf("%s rejected-changed %s", cf.name, o)}
				}
				if last {
					if s := compare(cf, real, mo); s != "" {
						return seqx.Result{Violation: s, VKey: fmt.Sprintf("%s after %s: %s", cf.name, o.String(), strings.SplitN(s, ":", 2)[0])}
					}
				}
			}
			if len(h) == 0 {
				if s := compare(cf, real, mo); s != "" {
					return seqx.Result{Violation: s, VKey: cf.name + " initial"}
				}
			}
			// the key also carries a reflective dump of the whole real object (unexported fields included,
			// wall-clock creation stamps masked), so that implementation state the model does not know
			// about (a cache, a cursor) keeps two histories apart instead of being merged away
			now := time.Now().UnixNano()
			return seqx.Result{Key: mo.key() + "|" + vlib.DeepDumpMask(real, startNano-int64(time.Hour), now+int64(time.Hour))}
		}
		render := func(h []int) []string {
			var out []string
			for _, oi := range h {
				out = append(out, ops[oi].String())
			}
			return out
		}
		st := seqx.BFS(len(ops), maxDepth, c.Deadline(5*time.Minute, 30*time.Minute), run, func(h []int, r seqx.Result) {
			c.Report(r.VKey, fmt.Sprintf("config %s history %v: %s", cf.name, render(h), r.Violation), map[string]interface{}{"config": cf.name, "history": render(h)})
		})
		fmt.Printf("  %s: states=%d transitions=%d fixpoint=%v depth=%d frontiers=%v\n", cf.name, st.States, st.Transitions, st.Exhaustive, st.DepthComplete, st.FrontierSizes)
		totStates += st.States
		totTrans += st.Transitions
		if st.MaxDepth > maxD {
			maxD = st.MaxDepth
		}
		if !st.Exhaustive {
			exh = false
		}
		c.Sample(map[string]interface{}{"config": cf.name, "ops": len(ops), "states": st.States, "transitions": st.Transitions, "fixpoint": st.Exhaustive, "depth_complete": st.DepthComplete, "deepest_history": render(st.Longest)})
		for i := 0; i < st.States; i++ {
			c.Eval(fmt.Sprintf("%s#%d", cf.name, i))
		}
		c.AddEvals(int64(st.Transitions - st.States))
	}
	c.Set("states", totStates)
	c.Set("transitions", totTrans)
	c.Set("traces_validated_against_impl", totTrans)
	c.Set("max_depth", maxD)
	c.Set("exhaustive", exh)
	c.Set("depth_bound", maxDepth)
	c.Assume = []string{"states are de-duplicated on the model state TOGETHER WITH a reflective dump of the complete real Metric object graph (unexported fields included, pointer identities canonicalised, wall-clock creation stamps masked), so hidden implementation state cannot be merged away", "timestamps are set explicitly (T1<T2) except creation stamps, which read the wall clock and are only classified as 'later than T2'"}
	c.Finish("explicit-state BFS over operation histories {get, write1@T1, write2@T2, remove, expire(1h), expire(0), removeOldest, wrong-arity get/remove/expire, take-over by a reloaded declaration through Store.Add} on tuples of a small universe, per metric kind/type/arity; every transition executes the real metric and compares enumeration, LabelValues, JSON, errors and slice/index consistency with an ordered-list model; distinct_nontrivial = distinct model states reached")
}
