// C19 — one-shot runs process every line once and then terminate.
// Schedule exploration (deviation-bounded, gosim) of the whole pipeline wired
// by mtail.New exactly as cmd/mtail does: tailer, log streams, runtime
// fan-out, VMs, exporter; real program files and log files.
package main

import (
	"context"
	"fmt"
	"os"
	"path/filepath"
	"sort"
	"strings"
	"time"

	"github.com/google/mtail/internal/metrics"
	"github.com/google/mtail/internal/mtail"
	"github.com/google/mtail/internal/runtime"
	"github.com/google/mtail/internal/zverif/gsx"
	"github.com/google/mtail/internal/zverif/shared/mt"
	"github.com/google/mtail/internal/zverif/shared/rtx"
	"github.com/google/mtail/internal/zverif/shared/tlx"
	"github.com/google/mtail/internal/zverif/vlib"
	"github.com/google/mtail/internal/zverif/vrt"
)

type prog struct {
	name, src string
	// expected store rendering given the files (path -> lines)
	want func(files map[string][]string) []string
}

func intOf(s string) (int64, bool) {
	var x int64
	if _, err := fmt.Sscan(s, &x); err != nil || fmt.Sprint(x) != s {
		return 0, false
	}
	return x, true
}

var progs = []prog{
	{"count.mtail", "counter lines\n/$/ {\n  lines++\n}\n", func(fs map[string][]string) []string {
		n := 0
		for _, ls := range fs {
			n += len(ls)
		}
		return []string{fmt.Sprintf("lines [] = i:%d", n)}
	}},
	{"byfile.mtail", "counter per_file by f\n/$/ {\n  per_file[getfilename()]++\n}\n", func(fs map[string][]string) []string {
		var out []string
		for p, ls := range fs {
			if len(ls) > 0 {
				out = append(out, fmt.Sprintf("per_file [%q] = i:%d", p, len(ls)))
			}
		}
		return out
	}},
	{"last.mtail", "gauge last by f\n/^(\\d+)$/ {\n  last[getfilename()] = $1\n}\n", func(fs map[string][]string) []string {
		var out []string
		for p, ls := range fs {
			have := false
			var v int64
			for _, l := range ls {
				if x, ok := intOf(l); ok {
					v, have = x, true
				}
			}
			if have {
				out = append(out, fmt.Sprintf("last [%q] = i:%d", p, v))
			}
		}
		return out
	}},
	// stop is the last instruction of the program: the line after a stopped one must start afresh
	{"stop.mtail", "counter ones\ncounter rest\n/^1$/ {\n  ones++\n} else {\n  rest++\n  stop\n}\n", func(fs map[string][]string) []string {
		ones, rest := 0, 0
		for _, ls := range fs {
			for _, l := range ls {
				if l == "1" {
					ones++
				} else {
					rest++
				}
			}
		}
		return []string{fmt.Sprintf("ones [] = i:%d", ones), fmt.Sprintf("rest [] = i:%d", rest)}
	}},
	{"errs.mtail", "counter seen\ncounter sum\n/^(.*)$/ {\n  seen++\n  sum += int($1)\n}\n", func(fs map[string][]string) []string {
		seen, sum := 0, int64(0)
		for _, ls := range fs {
			for _, l := range ls {
				seen++
				if x, ok := intOf(l); ok {
					sum += x
				}
			}
		}
		return []string{fmt.Sprintf("seen [] = i:%d", seen), fmt.Sprintf("sum [] = i:%d", sum)}
	}},
	// byte-identical to count.mtail under another name: a program in its own right (index nGrid; outside the sampled grid)
	{"count2.mtail", "counter lines\n/$/ {\n  lines++\n}\n", func(fs map[string][]string) []string {
		n := 0
		for _, ls := range fs {
			n += len(ls)
		}
		return []string{fmt.Sprintf("lines [] = i:%d", n)}
	}},
}

// nGrid programs take part in the (program set x file set) grid; those after them appear in dedicated scenarios.
const nGrid = 5

var fileContents = map[string]string{"empty": "", "one": "1\n", "two": "1\n2\n", "tail": "1\n2", "blank": "\n", "endblank": "1\n\n", "midblank": "1\n\n2", "rev": "2\n1\n", "devnull": ""}
var fileOrder = []string{"empty", "one", "two", "tail", "blank", "endblank", "midblank", "rev", "devnull"}

func linesOf(content string) []string {
	if content == "" {
		return nil
	}
	ls := strings.Split(content, "\n")
	if ls[len(ls)-1] == "" {
		ls = ls[:len(ls)-1]
	}
	return ls
}

type scen struct {
	name  string
	progs []int
	files []string
	dir   string
}

func (s *scen) setup(base string) error {
	s.dir = filepath.Join(base, strings.NewReplacer("/", "_", " ", "_", "+", "_").Replace(s.name))
	if err := os.MkdirAll(filepath.Join(s.dir, "progs"), 0o755); err != nil {
		return err
	}
	if err := os.MkdirAll(filepath.Join(s.dir, "logs"), 0o755); err != nil {
		return err
	}
	for _, pi := range s.progs {
		if err := os.WriteFile(filepath.Join(s.dir, "progs", progs[pi].name), []byte(progs[pi].src), 0o644); err != nil {
			return err
		}
	}
	for i, f := range s.files {
		name := filepath.Join(s.dir, "logs", fmt.Sprintf("%d_%s.log", i, f))
		if f == "devnull" {
			// a glob match that can be stat'ed but not tailed (a character device): it must be skipped, nothing else
			_ = os.Remove(name)
			if err := os.Symlink("/dev/null", name); err != nil {
				return err
			}
			continue
		}
		if err := os.WriteFile(name, []byte(fileContents[f]), 0o644); err != nil {
			return err
		}
	}
	return nil
}

type obs struct {
	runErr  string
	newErr  string
	dump    string
	lines   int64
	alive   []string
	rtErrs  map[string]int64
	returnd bool
}

func main() {
	_ = rtx.Hash
	_ = mt.Val
	c := vlib.Init("exploration")
	// mtail.New registers the exporter with a Prometheus registry, whose DescribeByCollect calls
	// Collect from a library goroutine while the registering thread waits for it: that goroutine takes
	// the (free) store lock directly instead of being scheduled.
	vrt.ForeignLocksDirect = true
	base := os.Getenv("VERIF_SCRATCH")
	if base == "" {
		base = "/dev/shm"
	}
	base = filepath.Join(base, fmt.Sprintf("c19.%d", os.Getpid()))
	defer os.RemoveAll(base)
	var scens []*scen
	var fileSets [][]string
	for i, a := range fileOrder {
		fileSets = append(fileSets, []string{a})
		for _, b := range fileOrder[i:] {
			fileSets = append(fileSets, []string{a, b})
		}
	}
	// the unopenable match must also sort before a regular log
	mandatory := len(fileSets)
	fileSets = append(fileSets, []string{"devnull", "two"}, []string{"devnull", "midblank"})
	var progSets [][]int
	for i := range progs[:nGrid] {
		progSets = append(progSets, []int{i})
		for j := i + 1; j < nGrid; j++ {
			progSets = append(progSets, []int{i, j})
		}
	}
	if c.Thorough() {
		fileSets = append(fileSets, []string{"two", "tail", "one"}, []string{"tail", "tail", "blank"})
		progSets = append(progSets, []int{0, 2, 4}, []int{1, 3, 4})
	}
	for pi, ps := range progSets {
		for fi, fs := range fileSets {
			if c.Quick() && (pi+fi)%5 != 0 && !(fi >= mandatory && fi < mandatory+2 && pi%4 == 0) {
				continue // quick: a fixed fifth of the (program set × file set) grid; thorough: all of it
			}
			var pn []string
			for _, p := range ps {
				pn = append(pn, strings.TrimSuffix(progs[p].name, ".mtail"))
			}
			scens = append(scens, &scen{name: strings.Join(pn, "+") + " on " + strings.Join(fs, "+"), progs: ps, files: fs})
		}
	}
	// two program files with identical bytes: each counts every line
	for _, fs := range [][]string{{"two"}, {"tail", "one"}} {
		scens = append(scens, &scen{name: "count+count2(identical bytes) on " + strings.Join(fs, "+"), progs: []int{0, nGrid}, files: fs})
	}
	for _, s := range scens {
		s := s
		if err := s.setup(base); err != nil {
			fmt.Println("ENGINE-ERROR scenario setup:", err)
			os.Exit(2)
		}
		files := map[string][]string{}
		total := int64(0)
		for i, f := range s.files {
			p := filepath.Join(s.dir, "logs", fmt.Sprintf("%d_%s.log", i, f))
			if f == "devnull" {
				continue
			}
			files[p] = linesOf(fileContents[f])
			total += int64(len(files[p]))
		}
		var want []string
		for _, pi := range s.progs {
			for _, l := range progs[pi].want(files) {
				want = append(want, progs[pi].name+": "+l)
			}
		}
		sort.Strings(want)
		var o obs
		body := func() {
			o = obs{rtErrs: map[string]int64{}}
			lines0 := runtime.LineCount.Value()
			store := metrics.NewStore()
			w1, w2 := tlx.NewWaker(), tlx.NewWaker()
			m, err := mtail.New(context.Background(), store,
				mtail.ProgramPath(filepath.Join(s.dir, "progs")),
				mtail.LogPathPatterns(filepath.Join(s.dir, "logs", "*.log")),
				mtail.LogPatternPollWaker(w1), mtail.LogstreamPollWaker(w2),
				mtail.OneShot)
			if err != nil {
				o.newErr = err.Error()
				return
			}
			if err := m.Run(); err != nil {
				o.runErr = err.Error()
			}
			o.returnd = true
			vrt.Quiesce()
			o.alive = vrt.Alive()
			o.lines = runtime.LineCount.Value() - lines0
			var dl []string
			for _, ml := range store.Metrics {
				for _, mm := range ml {
					for _, lv := range mm.LabelValues {
						dl = append(dl, fmt.Sprintf("%s: %s %q = %s", mm.Program, mm.Name, lv.Labels, mt.Val(lv.Value)))
					}
				}
			}
			sort.Strings(dl)
			o.dump = strings.Join(dl, "\n")
		}
		bound := 1
		if c.Thorough() && len(s.progs) == 1 && len(s.files) <= 2 {
			bound = 2
		}
		gsx.Explore(c, gsx.Config{
			Scenario: s.name, Bound: bound, MaxSteps: 400000, ByScenario: true,
			Deadline:      c.Deadline(7*time.Minute, 45*time.Minute),
			Body:          body,
			AllowDeadlock: false,
			AllowLeftover: true,
			Check: func(e vrt.Exec) (string, string, string) {
				switch {
				case o.newErr != "":
					return "new-failed " + s.name, "mtail.New: " + o.newErr, "new-failed"
				case !o.returnd:
					return "run-did-not-return " + s.name, "Server.Run did not return", "hang"
				case o.runErr != "":
					return "run-error " + s.name, "Server.Run: " + o.runErr, "run-error"
				case len(o.alive) > 0:
					return "not-shut-down " + s.name, "Server.Run returned but these components are still running or blocked:\n  " + strings.Join(o.alive, "\n  "), "leftover"
				case o.lines != total:
					return fmt.Sprintf("lines_total %s got=%d", s.name, o.lines), fmt.Sprintf("lines_total moved by %d, the files hold %d lines", o.lines, total), "lines_total"
				case o.dump != strings.Join(want, "\n"):
					return "final-store " + s.name, fmt.Sprintf("final metrics:\n%s\nwant (every line of every file processed once by every program, each file in order):\n%s", o.dump, strings.Join(want, "\n")), "wrong-store"
				}
				return "", "", "ok"
			},
		})
	}
	c.Assume = []string{
		"scheduling points are the synchronisation operations of mtail, tailer, logstream, runtime, vm, metrics, datum and exporter; file reads are synchronous steps of the reading thread",
		"program sets are chosen so that the expected final store does not depend on the interleaving of files (counters, per-file gauges)",
		"map iteration order is fixed to sorted key order by the engine",
		"the one library goroutine that enters instrumented code (prometheus DescribeByCollect during MustRegister, on an empty store, while the registering thread waits) takes free locks directly and is not a scheduled thread",
	}
	gsx.Finish(c, "schedule exploration of the whole one-shot pipeline (mtail.New + Run: tailer, file streams, runtime fan-out, VMs, exporter) on real files: program sets of size 1-2 (thorough: all, plus two of size 3) from {line counter, counter by getfilename(), per-file gauge of the last number, a program whose last instruction is a stop taken on some lines, a program that raises runtime errors on some lines}, and the pair of two program files with identical bytes, × file sets of size 1-2 (thorough 3) from {empty, 1 line, 2 lines, unterminated last line, one blank line, trailing blank line, blank line in the middle with an unterminated tail, two lines of which the first stops the stopping program, a matching path that is a character device}; all schedules with <=1 deviation (thorough: 2 for single-program scenarios); Run returns, every controlled thread has finished, lines_total equals the number of lines, the final store equals the reference; distinct_nontrivial = schedules with >=1 deviation")
}
