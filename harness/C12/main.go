// C12 — no export attempt can leave metrics locked or stall processing.
// Fault enumeration (every unrepresentable position, every write-failure
// position, every cancellation point) for every exporter entry point, executed
// under the gosim scheduler so that "no helper goroutine is left blocked" and
// "every lock is free" are exact end-state checks; each scenario is also
// explored with one scheduling deviation.
package main

import (
	"context"
	"errors"
	"fmt"
	"math"
	"net/http"
	"net/http/httptest"
	"strings"
	"time"

	"github.com/google/mtail/internal/exporter"
	"github.com/google/mtail/internal/metrics"
	"github.com/google/mtail/internal/metrics/datum"
	"github.com/google/mtail/internal/zverif/gsx"
	"github.com/google/mtail/internal/zverif/vlib"
	"github.com/google/mtail/internal/zverif/vrt"
	"github.com/prometheus/client_golang/prometheus"
)

type defect struct {
	kind   string // "", name, keyprog, keybad, keyempty, valutf8
	metric int
	set    int
}

func buildStore(d defect) (*metrics.Store, []*metrics.Metric) {
	st := metrics.NewStore()
	var ms []*metrics.Metric
	mk := func(i int, name string, kind metrics.Kind, typ metrics.Type, keys ...string) *metrics.Metric {
		if d.metric == i {
			switch d.kind {
			case "name":
				name = "9-bad name"
			case "keyprog":
				keys[0] = "prog"
			case "keybad":
				keys[0] = "a-b"
			case "keyempty":
				keys[0] = ""
			}
		}
		m := metrics.NewMetric(name, "prog", kind, typ, keys...)
		if typ == metrics.Buckets {
			m.Buckets = []datum.Range{{0, 1}, {1, math.Inf(1)}}
		}
		for j := 0; j < 3; j++ {
			lbl := make([]string, len(keys))
			for k := range lbl {
				lbl[k] = fmt.Sprintf("v%d%d", j, k)
			}
			if d.metric == i && d.set == j && d.kind == "valutf8" {
				lbl[0] = "\xff"
			}
			dd, _ := m.GetDatum(lbl...)
			ts := time.Unix(1600000000+int64(j), 0)
			switch typ {
			case metrics.Int:
				datum.SetInt(dd, int64(j+1), ts)
			case metrics.Float:
				datum.SetFloat(dd, float64(j)+0.5, ts)
			case metrics.Buckets:
				datum.Observe(dd, float64(j), ts)
			case metrics.String:
				datum.SetString(dd, "t", ts)
			}
		}
		_ = st.Add(m)
		ms = append(ms, m)
		return m
	}
	mk(0, "c", metrics.Counter, metrics.Int, "a")
	mk(1, "g", metrics.Gauge, metrics.Float, "a", "b")
	mk(2, "h", metrics.Histogram, metrics.Buckets, "a")
	mk(3, "t", metrics.Text, metrics.String, "a")
	return st, ms
}

// failing writer: fails (and/or cancels) at the k-th write
type fw struct {
	n, failAt int
	cancelAt  int
	cancel    context.CancelFunc
	hdr       http.Header
}

func (w *fw) Header() http.Header {
	if w.hdr == nil {
		w.hdr = http.Header{}
	}
	return w.hdr
}
func (w *fw) WriteHeader(int) {}
func (w *fw) Write(p []byte) (int, error) {
	w.n++
	if w.cancelAt > 0 && w.n == w.cancelAt && w.cancel != nil {
		w.cancel()
	}
	if w.failAt > 0 && w.n >= w.failAt {
		return 0, errors.New("injected write failure")
	}
	return len(p), nil
}

type fault struct {
	entry    string
	d        defect
	failAt   int
	cancelAt int  // 0 = none, -1 = before the request, k = at the k-th write
	updater  bool // a concurrent thread creates a label set in every metric during the attempt
}

func (f fault) String() string {
	s := f.entry
	if f.d.kind != "" {
		s += fmt.Sprintf(" defect=%s@metric%d/set%d", f.d.kind, f.d.metric, f.d.set)
	}
	if f.failAt > 0 {
		s += fmt.Sprintf(" write-fails-at=%d", f.failAt)
	}
	if f.cancelAt != 0 {
		s += fmt.Sprintf(" cancel-at=%d", f.cancelAt)
	}
	if f.updater {
		s += " with-concurrent-update"
	}
	return s
}

// attempt runs one export attempt with the fault; returns the number of writes seen.
func attempt(e *exporter.Exporter, f fault) int {
	ctx, cancel := context.WithCancel(context.Background())
	defer cancel()
	w := &fw{failAt: f.failAt, cancelAt: f.cancelAt, cancel: cancel}
	if f.cancelAt == -1 {
		cancel()
	}
	switch f.entry {
	case "collect":
		ch := vrt.MkU(make(chan prometheus.Metric, 1))
		done := vrt.MkU(make(chan struct{}, 1))
		vrt.Go(func() {
			for {
				_, ok := <-vrt.R(ch)
				if !ok {
					break
				}
			}
			close(vrt.Cl(done))
		})
		e.Collect(ch)
		close(vrt.Cl(ch))
		<-vrt.R(done)
	case "varz":
		e.HandleVarz(w, httptest.NewRequest("GET", "/varz", nil).WithContext(ctx))
	case "graphite-http":
		e.HandleGraphite(w, httptest.NewRequest("GET", "/graphite", nil).WithContext(ctx))
	case "json":
		e.HandleJSON(w, httptest.NewRequest("GET", "/json", nil).WithContext(ctx))
	case "push-graphite":
		_ = e.VerifWriteSocket(w, "graphite")
	case "push-statsd":
		_ = e.VerifWriteSocket(w, "statsd")
	case "push-collectd":
		_ = e.VerifWriteSocket(w, "collectd")
	}
	return w.n
}

var entries = []string{"collect", "varz", "graphite-http", "json", "push-graphite", "push-statsd", "push-collectd"}

func scenario(f fault) (func(), func() string) {
	var problems []string
	body := func() {
		problems = nil
		st, ms := buildStore(f.d)
		e, err := exporter.New(context.Background(), st, exporter.Hostname("h"), exporter.DisableExport())
		if err != nil {
			problems = append(problems, err.Error())
			return
		}
		if f.updater {
			// a VM-style updater runs concurrently with the (fault-free) export attempt
			vrt.Go(func() {
				for _, m := range ms {
					lbl := make([]string, len(m.Keys))
					for k := range lbl {
						lbl[k] = "upd"
					}
					_, _ = m.GetDatum(lbl...)
				}
			})
		}
		attempt(e, f)
		if f.updater {
			vrt.Join()
		}
		// (1) every lock is free
		for i, m := range ms {
			if !m.TryLock() {
				problems = append(problems, fmt.Sprintf("metric %d (%s) is still locked after the attempt", i, m.Name))
			} else {
				m.Unlock()
			}
		}
		if !st.VerifStoreLocksFree() {
			problems = append(problems, "a store lock is still held after the attempt")
		}
		if a := vrt.Alive(); len(a) > 0 {
			vrt.Quiesce()
			if a = vrt.Alive(); len(a) > 0 {
				problems = append(problems, "helper goroutines left blocked: "+strings.Join(a, "; "))
			}
		}
		if len(problems) > 0 {
			return // the follow-up below would hang on the leaked lock; the leak itself is the finding
		}
		// (2) processing continues: touch every metric the way a VM does
		for _, m := range ms {
			lbl := make([]string, len(m.Keys))
			for k := range lbl {
				lbl[k] = "new"
			}
			if _, err := m.GetDatum(lbl...); err != nil {
				problems = append(problems, "processing after the attempt: "+err.Error())
			}
		}
		// (3) a fault-free export of every format completes
		for _, en := range entries {
			attempt(e, fault{entry: en})
		}
		for i, m := range ms {
			if !m.TryLock() {
				problems = append(problems, fmt.Sprintf("metric %d is locked after the follow-up exports", i))
			} else {
				m.Unlock()
			}
		}
	}
	return body, func() string { return strings.Join(problems, "\n") }
}

func main() {
	c := vlib.Init("fault_enumeration")
	// measure the number of writes of a fault-free run per entry (outside gosim: plain counting run under vrt.Run)
	var faults []fault
	nw := map[string]int{}
	for _, en := range entries {
		en := en
		vrt.Run(seqChooser{}, false, 100000, func() {
			st, _ := buildStore(defect{metric: -1})
			e, _ := exporter.New(context.Background(), st, exporter.Hostname("h"), exporter.DisableExport())
			nw[en] = attempt(e, fault{entry: en})
		})
	}
	defects := []defect{{metric: -1}}
	for i := 0; i < 4; i++ {
		for _, k := range []string{"name", "keyprog", "keybad", "keyempty"} {
			defects = append(defects, defect{kind: k, metric: i, set: -1})
		}
		for j := 0; j < 3; j++ {
			defects = append(defects, defect{kind: "valutf8", metric: i, set: j})
		}
	}
	for _, en := range entries {
		for _, d := range defects {
			faults = append(faults, fault{entry: en, d: d})
		}
		for k := 1; k <= nw[en]; k++ {
			faults = append(faults, fault{entry: en, d: defect{metric: -1}, failAt: k})
			faults = append(faults, fault{entry: en, d: defect{metric: -1}, cancelAt: k})
		}
		faults = append(faults, fault{entry: en, d: defect{metric: -1}, cancelAt: -1})
		faults = append(faults, fault{entry: en, d: defect{metric: -1}, updater: true})
		faults = append(faults, fault{entry: en, d: defect{metric: -1}, updater: true, failAt: 2})
		if c.Thorough() {
			// pairs: a defect together with a write failure
			for _, d := range defects[1:] {
				for k := 1; k <= nw[en]; k += 2 {
					faults = append(faults, fault{entry: en, d: d, failAt: k})
				}
			}
		}
	}
	for _, f := range faults {
		f := f
		body, probs := scenario(f)
		gsx.Explore(c, gsx.Config{
			Scenario: f.String(), Bound: bound(c, f), MaxSteps: 200000, ByScenario: true,
			Deadline:      c.Deadline(8*time.Minute, 40*time.Minute),
			Body:          body,
			AllowDeadlock: false,
			Check: func(e vrt.Exec) (string, string, string) {
				p := probs()
				if p != "" {
					cls := "locked"
					if strings.Contains(p, "goroutines left blocked") {
						cls = "leak"
					}
					if strings.Contains(p, "locked") && strings.Contains(p, "goroutines left blocked") {
						cls = "locked+leak"
					}
					return cls + " " + f.String(), p, cls
				}
				return "", "", "clean"
			},
		})
	}
	c.Set("faults", len(faults))
	c.Set("writes_in_fault_free_run", nw)
	c.Assume = []string{"Exporter.Write/Gather and PushMetrics are not driven (their goroutines / sockets are outside the controlled scheduler); Collect and writeSocketMetrics, which they call, are", "the HTTP handlers are called directly with a scripted ResponseWriter and request context"}
	gsx.Finish(c, "fault enumeration on a store of 4 metrics × 3 label sets: for each of 7 exporter entry points (Collect, HandleVarz, HandleGraphite, HandleJSON, writeSocketMetrics×{graphite,statsd,collectd}): every unrepresentable position (metric × {invalid name, key prog, invalid key, empty key} and metric × label set × non-UTF-8 value), a write failure at every k-th write of the fault-free run, cancellation before the request and at every k-th write (thorough: defect × write-failure pairs), and a fault-free and a failing attempt racing with a thread that creates a label set in every metric (all schedules with <=1, thorough 3, deviations); each under all schedules with <=1 (thorough 2) deviations; after the attempt: TryLock on every metric and both store locks, no controlled thread left blocked, a VM-style GetDatum on every metric, then a fault-free export of every format. distinct_nontrivial = schedules with >=1 deviation")
}

func bound(c *vlib.Ctx, f fault) int {
	if f.updater {
		return c.Pick(1, 3)
	}
	return c.Pick(1, 2)
}

type seqChooser struct{}

func (seqChooser) Choose(n int, kind string, desc func() string) int { return 0 }
