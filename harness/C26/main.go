// C26 — program directory scanning loads exactly the eligible files.
// Explicit-state BFS over histories of file operations in a real program
// directory, each followed by LoadAllPrograms() and one probe line, on the real
// Runtime under the controlled scheduler; reference model: map from program
// name to the contents it last compiled successfully since its file was added.
package main

import (
	"fmt"
	"os"
	"path/filepath"
	"sort"
	"strings"
	"time"

	"github.com/google/mtail/internal/metrics/datum"
	"github.com/google/mtail/internal/runtime"
	"github.com/google/mtail/internal/zverif/hsx"
	"github.com/google/mtail/internal/zverif/shared/rtx"
	"github.com/google/mtail/internal/zverif/vlib"
)

var contents = map[string]string{
	"T1":     "counter m_T1\n/./ {\n  m_T1++\n}\n",
	"T2":     "counter m_T2\n/./ {\n  m_T2++\n}\n",
	"broken": "counter m_broken\n/./ {\n",
	"empty":  "", // a valid program: it compiles, runs and does nothing
}

type op struct {
	kind     string // write, remove, rename, mkdir
	f, g, ct string
}

func (o op) String() string {
	switch o.kind {
	case "write":
		return fmt.Sprintf("write(%s,%s)", o.f, o.ct)
	case "rename":
		return fmt.Sprintf("rename(%s->%s)", o.f, o.g)
	}
	return o.kind + "(" + o.f + ")"
}

func eligible(name string) bool {
	return !strings.Contains(name, "/") && !strings.HasPrefix(name, ".") && filepath.Ext(name) == ".mtail"
}

// model
type model struct {
	files   map[string]string // relative path -> content tag ("dir" for a directory)
	running map[string]string // program name -> content tag
	loads   map[string]int64
	unloads map[string]int64
}

func (m *model) apply(o op) bool {
	switch o.kind {
	case "write":
		if m.files[o.f] == "dir" {
			return false
		}
		if strings.Contains(o.f, "/") && m.files[filepath.Dir(o.f)] != "dir" {
			return false
		}
		m.files[o.f] = o.ct
	case "remove":
		if _, ok := m.files[o.f]; !ok || m.files[o.f] == "dir" {
			return false
		}
		delete(m.files, o.f)
	case "rename":
		ct, ok := m.files[o.f]
		if !ok || ct == "dir" || m.files[o.g] == "dir" {
			return false
		}
		delete(m.files, o.f)
		m.files[o.g] = ct
	case "mkdir":
		if _, ok := m.files[o.f]; ok {
			return false
		}
		m.files[o.f] = "dir"
	case "todir":
		// the file is replaced by a directory of the same name before the next reload request
		if ct, ok := m.files[o.f]; !ok || ct == "dir" {
			return false
		}
		m.files[o.f] = "dir"
	}
	return true
}

// reload applies the property's rule for one reload request.
func (m *model) reload() {
	for name := range m.running {
		if ct, ok := m.files[name]; !ok || ct == "dir" || !eligible(name) {
			delete(m.running, name)
			m.unloads[name]++
		}
	}
	var names []string
	for n := range m.files {
		names = append(names, n)
	}
	sort.Strings(names)
	for _, name := range names {
		ct := m.files[name]
		if ct == "dir" || !eligible(name) {
			continue
		}
		if ct == "broken" {
			continue // keeps what it ran before, if anything
		}
		if m.running[name] != ct {
			m.running[name] = ct
			m.loads[name]++
		}
	}
}

func (m *model) key() string {
	var fs, rs []string
	for f, c := range m.files {
		fs = append(fs, f+"="+c)
	}
	for f, c := range m.running {
		rs = append(rs, f+"="+c)
	}
	sort.Strings(fs)
	sort.Strings(rs)
	return "files{" + strings.Join(fs, ",") + "} running{" + strings.Join(rs, ",") + "}"
}

func markers(rt *rtx.RT) map[string]int64 {
	out := map[string]int64{}
	for name, ml := range rt.Store.Metrics {
		for _, m := range ml {
			for _, lv := range m.LabelValues {
				out[m.Program+"/"+name] += datum.GetInt(lv.Value)
			}
		}
	}
	return out
}

func realApply(dir string, o op) error {
	switch o.kind {
	case "write":
		return os.WriteFile(filepath.Join(dir, o.f), []byte(contents[o.ct]), 0o644)
	case "remove":
		return os.Remove(filepath.Join(dir, o.f))
	case "rename":
		return os.Rename(filepath.Join(dir, o.f), filepath.Join(dir, o.g))
	case "mkdir":
		return os.Mkdir(filepath.Join(dir, o.f), 0o755)
	case "todir":
		if err := os.Remove(filepath.Join(dir, o.f)); err != nil {
			return err
		}
		return os.Mkdir(filepath.Join(dir, o.f), 0o755)
	}
	return nil
}

func mkConfig(c *vlib.Ctx, cname string, files []string, tags []string, depth int, initial []op) hsx.Config {
	var ops []op
	for _, f := range files {
		for _, t := range tags {
			ops = append(ops, op{kind: "write", f: f, ct: t})
		}
		ops = append(ops, op{kind: "remove", f: f})
	}
	ops = append(ops,
		op{kind: "rename", f: "a.mtail", g: "b.mtail"},
		op{kind: "rename", f: "a.mtail", g: "notes.txt"},
		op{kind: "rename", f: "notes.txt", g: "a.mtail"},
		op{kind: "rename", f: "a.mtail", g: ".h.mtail"},
		op{kind: "mkdir", f: "d.mtail"},
		op{kind: "mkdir", f: "a.mtail"},
		op{kind: "todir", f: "a.mtail"},
	)
	names := make([]string, len(ops))
	for i, o := range ops {
		names[i] = o.String()
	}
	base := os.Getenv("VERIF_SCRATCH")
	if base == "" || !strings.HasPrefix(base, "/") {
		base = "/dev/shm"
	}
	return hsx.Config{
		Name: cname, Ops: names, MaxDepth: depth, Deadline: c.Deadline(6*time.Minute, 40*time.Minute),
		Run: func(hist []int) hsx.Result {
			dir, err := os.MkdirTemp("/dev/shm", "c26.")
			if err != nil {
				dir, err = os.MkdirTemp(base, "c26.")
				if err != nil {
					return hsx.Result{Violation: "harness: " + err.Error(), VKey: "harness-tempdir"}
				}
			}
			defer os.RemoveAll(dir)
			_ = os.Mkdir(filepath.Join(dir, "sub"), 0o755)
			mo := &model{files: map[string]string{"sub": "dir"}, running: map[string]string{}, loads: map[string]int64{}, unloads: map[string]int64{}}
			var hs []string
			h := append(append([]op{}, initial...), func() []op {
				var x []op
				for _, i := range hist {
					x = append(x, ops[i])
				}
				return x
			}()...)
			for _, o := range h {
				hs = append(hs, o.String())
			}
			hstr := strings.Join(hs, " ; ")
			var res hsx.Result
			applic := true
			viol := func(cls, what string) {
				if res.Violation == "" {
					res = hsx.Result{Violation: "history (each step followed by LoadAllPrograms and a probe line): " + hstr + "\n" + what, VKey: cls + ": " + hstr}
				}
			}
			er := hsx.Exec(400000, func() {
				loads0, unloads0 := map[string]int64{}, map[string]int64{}
				progNames := []string{"a.mtail", "b.mtail", ".h.mtail", "notes.txt", "c.mtail", "d.mtail", "sub"}
				for _, p := range progNames {
					loads0[p] = rtx.MapVal(runtime.ProgLoads, p)
					unloads0[p] = rtx.MapVal(runtime.ProgUnloads, p)
				}
				rt := rtx.Start(dir)
				if rt.Err != nil {
					viol("start", rt.Err.Error())
					return
				}
				for i, o := range h {
					if !mo.apply(o) {
						applic = false
						return
					}
					if err := realApply(dir, o); err != nil {
						viol("harness-fs", o.String()+": "+err.Error())
						return
					}
					if err := rt.LoadAll(); err != nil {
						viol("loadall-error", "LoadAllPrograms returned "+err.Error())
						return
					}
					mo.reload()
					before := markers(rt)
					rt.Line("probe", "x")
					after := markers(rt)
					if i < len(h)-1 {
						continue // earlier steps were judged when they were the last step of a shorter history
					}
					// running set and versions
					got := rt.R.VerifHandles()
					var gs, ws []string
					for n, hsh := range got {
						tag := "?"
						for t, src := range contents {
							if rtx.Fingerprint(src) == hsh {
								tag = t
							}
						}
						gs = append(gs, n+"="+tag)
					}
					for n, t := range mo.running {
						ws = append(ws, n+"="+t)
					}
					sort.Strings(gs)
					sort.Strings(ws)
					if strings.Join(gs, ",") != strings.Join(ws, ",") {
						viol("running-set", fmt.Sprintf("running programs (with the contents they were compiled from) are {%s}; the directory history calls for {%s}", strings.Join(gs, ","), strings.Join(ws, ",")))
						return
					}
					// the probe line moved exactly the marker of each running version
					moved := map[string]int64{}
					for k, v := range after {
						if d := v - before[k]; d != 0 {
							moved[k] = d
						}
					}
					want := map[string]int64{}
					for n, t := range mo.running {
						if t != "empty" { // the empty program has no marker
							want[n+"/m_"+t] = 1
						}
					}
					if fmt.Sprint(moved) != fmt.Sprint(want) {
						viol("probe", fmt.Sprintf("the probe line moved counters %v, want %v (program/marker of the running versions)", moved, want))
						return
					}
					for _, p := range progNames {
						if d := rtx.MapVal(runtime.ProgLoads, p) - loads0[p]; d != mo.loads[p] {
							viol("prog_loads_total", fmt.Sprintf("prog_loads_total[%s] moved by %d, the history has %d successful (re)loads of it", p, d, mo.loads[p]))
							return
						}
						if d := rtx.MapVal(runtime.ProgUnloads, p) - unloads0[p]; d != mo.unloads[p] {
							viol("prog_unloads_total", fmt.Sprintf("prog_unloads_total[%s] moved by %d, the history has %d unloads of it", p, d, mo.unloads[p]))
							return
						}
					}
					res.Key = mo.key() + " impl=" + rt.StateDump(dir)
				}
				if len(h) == 0 {
					res.Key = mo.key()
				}
			})
			if !applic {
				return hsx.Result{}
			}
			if a := hsx.Anomaly(er); a != "" && res.Violation == "" {
				viol("anomaly "+strings.SplitN(a, "\n", 2)[0], a)
			}
			return res
		},
	}
}

func main() {
	hsx.QuietGlog()
	c := vlib.Init("model_checking")
	files := []string{"a.mtail", "b.mtail", ".h.mtail", "notes.txt", "sub/c.mtail"}
	tags := []string{"T1", "T2", "broken", "empty"}
	var cfgs []hsx.Config
	if c.Quick() {
		cfgs = append(cfgs,
			mkConfig(c, "empty-dir/depth3", files, tags, 3, nil),
			mkConfig(c, "from-a=T1,b=T2/depth3", files[:2], tags, 3, []op{{kind: "write", f: "a.mtail", ct: "T1"}, {kind: "write", f: "b.mtail", ct: "T2"}}),
		)
	} else {
		cfgs = append(cfgs,
			mkConfig(c, "empty-dir/depth4", files, tags, 4, nil),
			mkConfig(c, "from-a=T1,b=T2/depth5", files[:2], tags, 5, []op{{kind: "write", f: "a.mtail", ct: "T1"}, {kind: "write", f: "b.mtail", ct: "T2"}}),
		)
	}
	c.Assume = []string{
		"every file operation is followed by a reload request (LoadAllPrograms called directly, as the SIGHUP handler does) and one probe line, under the default schedule with quiescence barriers",
		"files are regular files or directories on tmpfs; symlinks, unreadable files and concurrent modification during a scan are not generated",
	}
	hsx.Explore(c, "explicit-state BFS over histories of {write(file, contents in {T1, T2, does not compile, empty file}), remove(file), rename to/from another program name, a non-.mtail name and a dot-name, mkdir of a matching name, a program file replaced by a directory of its name} on a real directory holding a.mtail, b.mtail, .h.mtail, notes.txt, sub/c.mtail, each step followed by LoadAllPrograms and a probe line; per transition the running set with the contents each program was compiled from equals the model (eligible = non-hidden .mtail regular file directly in the directory; running = last contents compiled successfully since the file was added), the probe line moves exactly the marker counter of each running version, and prog_loads_total / prog_unloads_total moved by the model's event counts", cfgs...)
}
