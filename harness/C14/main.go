// C14 — program reload preserves state and never duplicates series.
// Explicit-state BFS over histories of {load version Vi, lines, GC, unload} of
// one program file on the real Runtime (gosim default schedule, quiescence
// after every step), in company of a second program that owns a name one of
// the versions clashes with.
package main

import (
	"fmt"
	"sort"
	"strings"
	"time"

	"github.com/google/mtail/internal/metrics"
	"github.com/google/mtail/internal/runtime"
	"github.com/google/mtail/internal/zverif/hsx"
	"github.com/google/mtail/internal/zverif/shared/mt"
	"github.com/google/mtail/internal/zverif/shared/rtx"
	"github.com/google/mtail/internal/zverif/vlib"
)

const body = `/^k (\w+)$/ {
  n[$1]++
  g = 7
}
/^o (\w+)$/ {
  settime(1000)
  n[$1]++
  del n[$1] after 1h
}
/^d (\w+)$/ {
  del n[$1] after 1h
}
`

type version struct{ id, src string }

var versions = []version{
	{"V0", "counter n by k\ngauge g\n" + body},
	{"V0same", "counter n by k\ngauge g\n" + body},
	{"V1comment", "counter n by k\ngauge g\n" + body + "# a comment\n"},
	{"V2moved", "# moved down\ncounter n by k\ngauge g\n" + body},
	{"V3kind", "counter n by k\ncounter g\n" + strings.Replace(body, "g = 7", "g++", 1)},
	{"V4type", "counter n by k\ngauge g\n" + strings.Replace(body, "g = 7", "g = 7.5", 1)},
	{"V5keys", "counter n by j\ngauge g\n" + body},
	{"V6syntax", "counter n by k\ngauge g\n/^k (\\w+)$/ {\n"},
	{"V7clash", "counter n by k\ngauge g\ncounter other\n" + strings.Replace(body, "g = 7", "g = 7\n  other++", 1)},
	{"V8body", "counter n by k\ngauge g\n" + strings.Replace(body, "g = 7", "g = 8", 1)},
}

const otherProg = "gauge other\n/^z$/ {\n  other = 1\n}\n"

const P = "p.mtail"

type op struct {
	kind string
	ver  int
	line string
}

func (o op) String() string {
	switch o.kind {
	case "load":
		return "load(" + versions[o.ver].id + ")"
	case "line":
		return fmt.Sprintf("line(%q)", o.line)
	}
	return o.kind
}

// one metric of the program as observed in the store
type mobs struct {
	desc   string // kind, name, type, keys, source
	labels map[string]string
	order  []string
}

type snap struct {
	ms      []mobs
	dump    string // canonical dump with expiry (no timestamps)
	other   string
	version string
	vmid    string
	hidden  string
}

func observe(rt *rtx.RT) snap {
	var s snap
	var lines []string
	for _, m := range rt.ProgMetrics(P) {
		o := mobs{desc: fmt.Sprintf("%s %s %s keys=%q at %s", m.Kind, m.Name, m.Type, m.Keys, m.Source), labels: map[string]string{}}
		for _, lv := range m.LabelValues {
			k := fmt.Sprintf("%q", lv.Labels)
			o.labels[k] = fmt.Sprintf("%s expiry=%v", mt.Val(lv.Value), lv.Expiry)
			o.order = append(o.order, k)
			lines = append(lines, fmt.Sprintf("%s %s = %s", o.desc, k, o.labels[k]))
		}
		if len(m.LabelValues) == 0 {
			lines = append(lines, o.desc+" <no data>")
		}
		s.ms = append(s.ms, o)
	}
	sort.Strings(lines)
	s.dump = strings.Join(lines, "\n")
	s.other = rt.DumpProg("q.mtail", true)
	s.version = rt.R.VerifHandles()[P]
	s.vmid = rt.R.VerifVMIDs()[P]
	s.hidden = rt.StateDump()
	return s
}

func duplicates(rt *rtx.RT) (string, string) {
	byName := map[string][]*metrics.Metric{}
	for _, m := range rt.ProgMetrics(P) {
		byName[m.Name] = append(byName[m.Name], m)
	}
	var names []string
	for n := range byName {
		names = append(names, n)
	}
	sort.Strings(names)
	for _, n := range names {
		ms := byName[n]
		for i := 0; i < len(ms); i++ {
			for j := i + 1; j < len(ms); j++ {
				seen := map[string]bool{}
				for _, lv := range ms[i].LabelValues {
					seen[fmt.Sprintf("%q", lv.Labels)] = true
				}
				for _, lv := range ms[j].LabelValues {
					if seen[fmt.Sprintf("%q", lv.Labels)] {
						a := fmt.Sprintf("%s %s keys=%q at %s", ms[i].Kind, ms[i].Type, ms[i].Keys, ms[i].Source)
						b := fmt.Sprintf("%s %s keys=%q at %s", ms[j].Kind, ms[j].Type, ms[j].Keys, ms[j].Source)
						if b < a {
							a, b = b, a
						}
						return fmt.Sprintf("metric %s of %s is registered twice (%s; %s) and both carry label set %q: the export has two series %s{prog=%q} with the same labels", n, P, a, b, lv.Labels, n, P), n + ": " + a + " + " + b
					}
				}
			}
		}
	}
	return "", ""
}

type outcome struct {
	before, after snap // around the last op
	lastErr       string
	prevSrc       string // source running before the last op (per the loads that succeeded)
	failed        []bool // per op: a load that failed
	dup, dupKey   string
	bad           string
	applic        bool
}

func execute(ops []op, skip []bool, withOther bool, opts ...runtime.Option) outcome {
	o := outcome{applic: true}
	res := hsx.Exec(400000, func() {
		rt := rtx.Start("", opts...)
		if rt.Err != nil {
			o.bad = rt.Err.Error()
			return
		}
		if withOther {
			if err := rt.Load("q.mtail", otherProg); err != nil {
				o.bad = "setup: " + err.Error()
				return
			}
		}
		if err := rt.Load(P, versions[0].src); err != nil {
			o.bad = "setup: " + err.Error()
			return
		}
		o.after = observe(rt)
		cur := versions[0].src
		for i, p := range ops {
			failed := false
			if skip == nil || !skip[i] {
				o.before = o.after
				o.lastErr = ""
				switch p.kind {
				case "load":
					o.prevSrc = cur
					if err := rt.Load(P, versions[p.ver].src); err != nil {
						failed = true
						o.lastErr = err.Error()
					} else {
						cur = versions[p.ver].src
					}
				case "line":
					rt.Line("f", p.line)
				case "gc":
					if err := rt.Store.Gc(); err != nil {
						o.lastErr = err.Error()
					}
				case "unload":
					if _, ok := rt.R.VerifHandles()[P]; !ok {
						o.applic = false
						return
					}
					rt.Unload(P)
					cur = ""
				}
				o.after = observe(rt)
			}
			o.failed = append(o.failed, failed)
		}
		o.dup, o.dupKey = duplicates(rt)
	})
	if a := hsx.Anomaly(res); a != "" && o.bad == "" {
		o.bad = a
	}
	return o
}

func mkConfig(c *vlib.Ctx, cname string, vers []int, lines []string, withOther bool, depth int, opts ...runtime.Option) hsx.Config {
	var ops []op
	for _, v := range vers {
		ops = append(ops, op{kind: "load", ver: v})
	}
	for _, l := range lines {
		ops = append(ops, op{kind: "line", line: l})
	}
	ops = append(ops, op{kind: "gc"}, op{kind: "unload"})
	names := make([]string, len(ops))
	for i, o := range ops {
		names[i] = o.String()
	}
	return hsx.Config{
		Name: cname, Ops: names, MaxDepth: depth, Deadline: c.Deadline(6*time.Minute, 40*time.Minute),
		Run: func(hist []int) hsx.Result {
			h := make([]op, len(hist))
			var hs []string
			for i, x := range hist {
				h[i] = ops[x]
				hs = append(hs, names[x])
			}
			hstr := "load(V0) ; " + strings.Join(hs, " ; ")
			r := execute(h, nil, withOther, opts...)
			if !r.applic {
				return hsx.Result{}
			}
			viol := func(cls, what string) hsx.Result {
				return hsx.Result{Violation: "history: " + hstr + "\n" + what, VKey: cls + ": " + hstr}
			}
			if r.bad != "" {
				return viol("anomaly "+strings.SplitN(r.bad, "\n", 2)[0], r.bad)
			}
			key := fmt.Sprintf("impl=%s running=%s\n%s\n--\n%s", r.after.hidden, short(r.after.version), r.after.dump, r.after.other)
			if len(h) == 0 {
				return hsx.Result{Key: key}
			}
			last := h[len(h)-1]
			note := last.kind
			if last.kind == "load" {
				v := versions[last.ver]
				sameSource := r.prevSrc == v.src
				switch {
				case sameSource:
					note = "load-identical"
					if r.lastErr != "" {
						return viol("identical-reload-error", "reloading identical source returned an error: "+r.lastErr)
					}
					if r.after.dump != r.before.dump || r.after.vmid != r.before.vmid || r.after.version != r.before.version {
						return viol("identical-reload-changed", fmt.Sprintf("reloading byte-identical source changed the program:\nbefore (vm %s):\n%s\nafter (vm %s):\n%s", r.before.vmid, r.before.dump, r.after.vmid, r.after.dump))
					}
				case r.lastErr != "":
					note = "load-failed"
					if v.id != "V6syntax" && v.id != "V7clash" && v.id != "V3kind" {
						return viol("load-refused "+v.id, "a valid edit was refused: "+r.lastErr)
					}
					if v.id == "V7clash" && !withOther {
						return viol("load-refused "+v.id, "refused without the clashing program: "+r.lastErr)
					}
					if r.after.dump != r.before.dump || r.after.other != r.before.other {
						return viol("failed-load-changed-store "+v.id, fmt.Sprintf("a load that failed (%s) changed the exported metrics:\nbefore:\n%s\nafter:\n%s", firstLine(r.lastErr), r.before.dump, r.after.dump))
					}
					if r.after.version != r.before.version || r.after.vmid != r.before.vmid {
						return viol("failed-load-changed-vm "+v.id, "a load that failed replaced or stopped the running version")
					}
				default:
					note = "load-ok"
					if r.after.version != rtx.Fingerprint(v.src) {
						return viol("load-ok-not-running "+v.id, "the load succeeded but the running version is not the loaded source")
					}
					// every declaration kept at the same place with the same kind, name, type and keys keeps its data and expiry
					for _, nm := range r.after.ms {
						for _, om := range r.before.ms {
							if om.desc != nm.desc {
								continue
							}
							for _, k := range om.order {
								if nm.labels[k] != om.labels[k] {
									return viol("kept-declaration-lost-state "+v.id, fmt.Sprintf("declaration %s is unchanged by the reload, but label set %s was %s before and is %q after", om.desc, k, om.labels[k], nm.labels[k]))
								}
							}
						}
					}
				}
			}
			if r.after.other != r.before.other && last.kind != "line" {
				return viol("other-program-changed", fmt.Sprintf("%s changed the metrics of q.mtail:\nbefore:\n%s\nafter:\n%s", last, r.before.other, r.after.other))
			}
			if r.dup != "" {
				return hsx.Result{Violation: "history: " + hstr + "\n" + r.dup, VKey: "duplicate-series " + r.dupKey}
			}
			// differential: failed loads must be invisible to everything that follows
			anyFailed := false
			for _, f := range r.failed {
				anyFailed = anyFailed || f
			}
			if anyFailed && last.kind != "load" {
				r2 := execute(h, r.failed, withOther, opts...)
				if r2.bad != "" {
					return viol("anomaly-without-failed-loads", r2.bad)
				}
				if r2.after.dump != r.after.dump || r2.after.version != r.after.version {
					return viol("failed-load-visible-later", fmt.Sprintf("the history with its failed loads and the same history without them end in different exports:\nwith:\n%s\nwithout:\n%s", r.after.dump, r2.after.dump))
				}
				note += "+diff"
			}
			return hsx.Result{Key: key, Note: note}
		},
	}
}

func firstLine(s string) string { return strings.SplitN(s, "\n", 2)[0] }

func short(s string) string {
	if len(s) > 8 {
		return s[:8]
	}
	if s == "" {
		return "<none>"
	}
	return s
}

func main() {
	hsx.QuietGlog()
	c := vlib.Init("model_checking")
	lines := []string{"k a", "k b", "o a", "d a"}
	all := []int{0, 1, 2, 3, 4, 5, 6, 7, 8, 9}
	var cfgs []hsx.Config
	if c.Quick() {
		cfgs = append(cfgs,
			mkConfig(c, "with-other-program/depth4", all, lines, true, 4),
			mkConfig(c, "alone/core-versions/depth5", []int{1, 2, 3, 4, 6, 9}, []string{"k a", "o a", "d a"}, false, 5),
			mkConfig(c, "omit-metric-source/depth3", all, []string{"k a", "o a"}, false, 3, runtime.OmitMetricSource()),
		)
	} else {
		cfgs = append(cfgs,
			mkConfig(c, "with-other-program/depth5", all, lines, true, 5),
			mkConfig(c, "alone/depth5", all, lines, false, 5),
			mkConfig(c, "alone/core-versions/depth7", []int{1, 2, 3, 4, 6, 9}, []string{"k a", "o a", "d a"}, false, 7),
			mkConfig(c, "omit-metric-source/depth4", all, lines, false, 4, runtime.OmitMetricSource()),
		)
	}
	c.Assume = []string{
		"histories run under the default schedule of the controlled scheduler with a quiescence barrier after every step (reload racing with a line in flight is C20)",
		"'export' is observed as the store contents registered for the program (metric descriptors incl. declaration position, label sets, values, expiry marks); timestamps are excluded because they are processing time",
		"a duplicate series is two registered metrics of one program with the same name that both carry some label set",
	}
	hsx.Explore(c, "explicit-state BFS from the state 'V0 loaded' over histories of {load(Vi) for 10 versions of one file: identical, comment appended, declaration moved down, kind changed, value type changed, keys changed, syntax error, a name clashing with another program's metric, body-only edit; lines that create label sets, create one with an old timestamp and a pending expiry, mark one for expiry; Store.Gc; unload}; per transition: identical source changes neither store nor VM identity; a failed load leaves store and VM untouched and (differential) stays invisible in every continuation; a kept declaration keeps label sets, values and expiry marks; no two registered metrics of the program share a name and a label set; the other program's metrics are untouched", cfgs...)
}
