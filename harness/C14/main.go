// C14 — program reload preserves state and never duplicates series.
// Explicit-state BFS over histories of {load version Vi, lines, GC, unload} of
// one program file on the real Runtime (gosim default schedule, quiescence
// after every step), in company of a second program that owns a name one of
// the versions clashes with.
package main

import (
	"fmt"
	"math"
	"os"
	"path/filepath"
	"sort"
	"strings"
	"time"

	"github.com/google/mtail/internal/metrics"
	"github.com/google/mtail/internal/metrics/datum"
	"github.com/google/mtail/internal/runtime"
	"github.com/google/mtail/internal/zverif/hsx"
	"github.com/google/mtail/internal/zverif/shared/mt"
	"github.com/google/mtail/internal/zverif/shared/rtx"
	"github.com/google/mtail/internal/zverif/vlib"
)

const body = `/^k (\w+)$/ {
  n[$1]++
  g = 7
  total++
}
/^o (\w+)$/ {
  settime(1000)
  n[$1]++
  del n[$1] after 1h
}
/^d (\w+)$/ {
  del n[$1] after 1h
}
`

type version struct{ id, src string }

var versions = []version{
	{"V0", "counter n by k\ngauge g\ncounter total\n" + body},
	{"V0same", "counter n by k\ngauge g\ncounter total\n" + body},
	{"V1comment", "counter n by k\ngauge g\ncounter total\n" + body + "# a comment\n"},
	{"V2moved", "# moved down\ncounter n by k\ngauge g\ncounter total\n" + body},
	{"V3kind", "counter n by k\ncounter g\ncounter total\n" + strings.Replace(body, "g = 7", "g++", 1)},
	{"V4type", "counter n by k\ngauge g\ncounter total\n" + strings.Replace(body, "g = 7", "g = 7.5", 1)},
	{"V5keys", "counter n by j\ngauge g\ncounter total\n" + body},
	{"V6syntax", "counter n by k\ngauge g\ncounter total\n/^k (\\w+)$/ {\n"},
	{"V7clash", "counter n by k\ngauge g\ncounter total\ncounter other\n" + strings.Replace(body, "g = 7", "g = 7\n  other++", 1)},
	{"V8body", "counter n by k\ngauge g\ncounter total\n" + strings.Replace(body, "g = 7", "g = 8", 1)},
	// histogram declarations: the same buckets, one boundary changed, one boundary added
	{"V9hist", "counter n by k\ngauge g\ncounter total\nhistogram h buckets 1, 2\n" + body + histBody},
	{"V10rebucket", "counter n by k\ngauge g\ncounter total\nhistogram h buckets 1, 4\n" + body + histBody},
	{"V11morebuckets", "counter n by k\ngauge g\ncounter total\nhistogram h buckets 1, 2, 4\n" + body + histBody},
	{"V12histcomment", "counter n by k\ngauge g\ncounter total\nhistogram h buckets 1, 2\n" + body + histBody + "# a comment\n"},
	// compiles, and none of its names is registered yet with another kind, but two of its own declarations export
	// one name with different kinds: registration fails half way
	{"V13selfclash", "counter n by k\ngauge g\ncounter total\ncounter c1 as \"dup\"\ngauge c2 as \"dup\"\n" + strings.Replace(body, "g = 7", "g = 7\n  c1++\n  c2 = 1", 1)},
}

const histBody = "/^h (\\S+)$/ {\n  h = float($1)\n}\n"

const otherProg = "gauge other\n/^z$/ {\n  other = 1\n}\n"

const P = "p.mtail"

type op struct {
	kind string
	ver  int
	line string
}

func (o op) String() string {
	switch o.kind {
	case "load":
		return "load(" + versions[o.ver].id + ")"
	case "line":
		return fmt.Sprintf("line(%q)", o.line)
	}
	return o.kind
}

// one metric of the program as observed in the store
type mobs struct {
	desc   string // kind, name, type, keys, source
	labels map[string]string
	order  []string
}

type snap struct {
	ms      []mobs
	dump    string // canonical dump with expiry (no timestamps)
	other   string
	version string
	vmid    string
	hidden  string
}

func observe(rt *rtx.RT) snap {
	var s snap
	var lines []string
	for _, m := range rt.ProgMetrics(P) {
		o := mobs{desc: fmt.Sprintf("%s %s %s keys=%q at %s", m.Kind, m.Name, m.Type, m.Keys, m.Source), labels: map[string]string{}}
		if m.Kind == metrics.Histogram {
			o.desc += fmt.Sprintf(" buckets=%v", m.Buckets) // the bucket list is part of the declaration
		}
		for _, lv := range m.LabelValues {
			k := fmt.Sprintf("%q", lv.Labels)
			o.labels[k] = fmt.Sprintf("%s expiry=%v", mt.Val(lv.Value), lv.Expiry)
			o.order = append(o.order, k)
			lines = append(lines, fmt.Sprintf("%s %s = %s", o.desc, k, o.labels[k]))
		}
		if len(m.LabelValues) == 0 {
			lines = append(lines, o.desc+" <no data>")
		}
		s.ms = append(s.ms, o)
	}
	sort.Strings(lines)
	s.dump = strings.Join(lines, "\n")
	s.other = rt.DumpProg("q.mtail", true)
	s.version = rt.R.VerifHandles()[P]
	s.vmid = rt.R.VerifVMIDs()[P]
	s.hidden = rt.StateDump()
	return s
}

func duplicates(rt *rtx.RT) (string, string) {
	byName := map[string][]*metrics.Metric{}
	for _, m := range rt.ProgMetrics(P) {
		byName[m.Name] = append(byName[m.Name], m)
	}
	var names []string
	for n := range byName {
		names = append(names, n)
	}
	sort.Strings(names)
	for _, n := range names {
		ms := byName[n]
		for i := 0; i < len(ms); i++ {
			for j := i + 1; j < len(ms); j++ {
				seen := map[string]bool{}
				for _, lv := range ms[i].LabelValues {
					seen[fmt.Sprintf("%q", lv.Labels)] = true
				}
				for _, lv := range ms[j].LabelValues {
					if seen[fmt.Sprintf("%q", lv.Labels)] {
						a := fmt.Sprintf("%s %s keys=%q at %s", ms[i].Kind, ms[i].Type, ms[i].Keys, ms[i].Source)
						b := fmt.Sprintf("%s %s keys=%q at %s", ms[j].Kind, ms[j].Type, ms[j].Keys, ms[j].Source)
						if b < a {
							a, b = b, a
						}
						return fmt.Sprintf("metric %s of %s is registered twice (%s; %s) and both carry label set %q: the export has two series %s{prog=%q} with the same labels", n, P, a, b, lv.Labels, n, P), n + ": " + a + " + " + b
					}
				}
			}
		}
	}
	return "", ""
}

// variant adjusts every version for a configuration (e.g. a size limit on the dimensioned counter).
type variant struct {
	limit  bool // `counter n by k limit 1`
	viaDir bool // versions are written to a program directory and loaded by LoadAllPrograms
}

func (v variant) src(s string) string {
	if v.limit {
		s = strings.Replace(s, "counter n by k\n", "counter n by k limit 1\n", 1)
		s = strings.Replace(s, "counter n by j\n", "counter n by j limit 1\n", 1)
	}
	return s
}

type outcome struct {
	before, after snap // around the last op
	lastErr       string
	prevSrc       string // source running before the last op (per the loads that succeeded)
	failed        []bool // per op: a load that failed
	dup, dupKey   string
	inconsistent  string
	histogram     string // a registered histogram whose data do not have the declared buckets, or whose buckets do not sum to the count
	bad           string
	applic        bool
}

func execute(ops []op, skip []bool, withOther bool, vr variant, opts ...runtime.Option) outcome {
	o := outcome{applic: true}
	res := hsx.Exec(400000, func() {
		dir := ""
		if vr.viaDir {
			var err error
			dir, err = os.MkdirTemp("/dev/shm", "c14.")
			if err != nil {
				o.bad = "harness: " + err.Error()
				return
			}
			defer os.RemoveAll(dir)
			if withOther {
				_ = os.WriteFile(filepath.Join(dir, "q.mtail"), []byte(otherProg), 0o644)
			}
			_ = os.WriteFile(filepath.Join(dir, P), []byte(vr.src(versions[0].src)), 0o644)
		}
		rt := rtx.Start(dir, opts...)
		if rt.Err != nil {
			o.bad = rt.Err.Error()
			return
		}
		// load through CompileAndRun, or by writing the file and asking for a reload of the directory
		load := func(name, src string) error {
			if !vr.viaDir {
				return rt.Load(name, src)
			}
			before := rtx.MapVal(runtime.ProgLoadErrors, name)
			_ = os.WriteFile(filepath.Join(dir, name), []byte(src), 0o644)
			if err := rt.LoadAll(); err != nil {
				return err
			}
			if rtx.MapVal(runtime.ProgLoadErrors, name) > before {
				return fmt.Errorf("load error counted for %s", name)
			}
			return nil
		}
		if !vr.viaDir {
			if withOther {
				if err := rt.Load("q.mtail", otherProg); err != nil {
					o.bad = "setup: " + err.Error()
					return
				}
			}
			if err := rt.Load(P, vr.src(versions[0].src)); err != nil {
				o.bad = "setup: " + err.Error()
				return
			}
		}
		if _, ok := rt.R.VerifHandles()[P]; !ok {
			o.bad = "setup: V0 is not running"
			return
		}
		o.after = observe(rt)
		cur := vr.src(versions[0].src)
		for i, p := range ops {
			failed := false
			if skip == nil || !skip[i] {
				o.before = o.after
				o.lastErr = ""
				switch p.kind {
				case "load":
					o.prevSrc = cur
					if err := load(P, vr.src(versions[p.ver].src)); err != nil {
						failed = true
						o.lastErr = err.Error()
					} else {
						cur = vr.src(versions[p.ver].src)
					}
				case "line":
					rt.Line("f", p.line)
				case "gc":
					if err := rt.Store.Gc(); err != nil {
						o.lastErr = err.Error()
					}
				case "unload":
					if _, ok := rt.R.VerifHandles()[P]; !ok {
						o.applic = false
						return
					}
					if vr.viaDir {
						_ = os.Remove(filepath.Join(dir, P))
						_ = rt.LoadAll()
					} else {
						rt.Unload(P)
					}
					cur = ""
				}
				o.after = observe(rt)
			}
			o.failed = append(o.failed, failed)
		}
		o.dup, o.dupKey = duplicates(rt)
		for _, m := range rt.ProgMetrics(P) {
			if s := m.VerifConsistent(); s != "" {
				o.inconsistent = fmt.Sprintf("metric %s (declared at %s): %s", m.Name, m.Source, s)
			}
			if m.Kind != metrics.Histogram {
				continue
			}
			var declared []string
			for _, r := range m.Buckets {
				if !math.IsInf(r.Max, 1) {
					declared = append(declared, fmt.Sprintf("%v", r.Max))
				}
			}
			sort.Strings(declared)
			for _, lv := range m.LabelValues {
				bd := datum.GetBuckets(lv.Value)
				var have []string
				var tot uint64
				for r, n := range bd.GetBuckets() {
					if !math.IsInf(r.Max, 1) {
						have = append(have, fmt.Sprintf("%v", r.Max))
					}
					tot += n
				}
				sort.Strings(have)
				if strings.Join(have, ",") != strings.Join(declared, ",") {
					o.histogram = fmt.Sprintf("histogram %s is declared with the bucket bounds [%s] but its data are bucketed by [%s]", m.Name, strings.Join(declared, ","), strings.Join(have, ","))
				} else if tot != bd.GetCount() {
					o.histogram = fmt.Sprintf("histogram %s: the bucket counts sum to %d, the observation count is %d", m.Name, tot, bd.GetCount())
				}
			}
		}
	})
	if a := hsx.Anomaly(res); a != "" && o.bad == "" {
		o.bad = a
	}
	return o
}

func mkConfig(c *vlib.Ctx, cname string, vers []int, lines []string, withOther bool, depth int, vr variant, opts ...runtime.Option) hsx.Config {
	var ops []op
	for _, v := range vers {
		ops = append(ops, op{kind: "load", ver: v})
	}
	for _, l := range lines {
		ops = append(ops, op{kind: "line", line: l})
	}
	ops = append(ops, op{kind: "gc"}, op{kind: "unload"})
	names := make([]string, len(ops))
	for i, o := range ops {
		names[i] = o.String()
	}
	return hsx.Config{
		Name: cname, Ops: names, MaxDepth: depth, Deadline: c.Deadline(6*time.Minute, 40*time.Minute),
		Run: func(hist []int) hsx.Result {
			h := make([]op, len(hist))
			var hs []string
			for i, x := range hist {
				h[i] = ops[x]
				hs = append(hs, names[x])
			}
			hstr := "load(V0) ; " + strings.Join(hs, " ; ")
			r := execute(h, nil, withOther, vr, opts...)
			if !r.applic {
				return hsx.Result{}
			}
			viol := func(cls, what string) hsx.Result {
				return hsx.Result{Violation: "history: " + hstr + "\n" + what, VKey: cls + ": " + hstr}
			}
			if r.bad != "" {
				return viol("anomaly "+strings.SplitN(r.bad, "\n", 2)[0], r.bad)
			}
			key := fmt.Sprintf("impl=%s running=%s\n%s\n--\n%s", r.after.hidden, short(r.after.version), r.after.dump, r.after.other)
			if len(h) == 0 {
				return hsx.Result{Key: key}
			}
			last := h[len(h)-1]
			note := last.kind
			if last.kind == "load" {
				v := versions[last.ver]
				sameSource := r.prevSrc == vr.src(v.src)
				switch {
				case sameSource:
					note = "load-identical"
					if r.lastErr != "" {
						return viol("identical-reload-error", "reloading identical source returned an error: "+r.lastErr)
					}
					if r.after.dump != r.before.dump || r.after.vmid != r.before.vmid || r.after.version != r.before.version {
						return viol("identical-reload-changed", fmt.Sprintf("reloading byte-identical source changed the program:\nbefore (vm %s):\n%s\nafter (vm %s):\n%s", r.before.vmid, r.before.dump, r.after.vmid, r.after.dump))
					}
				case r.lastErr != "":
					note = "load-failed"
					if v.id != "V6syntax" && v.id != "V7clash" && v.id != "V3kind" && v.id != "V13selfclash" {
						return viol("load-refused "+v.id, "a valid edit was refused: "+r.lastErr)
					}
					if v.id == "V7clash" && !withOther {
						return viol("load-refused "+v.id, "refused without the clashing program: "+r.lastErr)
					}
					if r.after.dump != r.before.dump || r.after.other != r.before.other {
						return viol("failed-load-changed-store "+v.id, fmt.Sprintf("a load that failed (%s) changed the exported metrics:\nbefore:\n%s\nafter:\n%s", firstLine(r.lastErr), r.before.dump, r.after.dump))
					}
					if r.after.version != r.before.version || r.after.vmid != r.before.vmid {
						return viol("failed-load-changed-vm "+v.id, "a load that failed replaced or stopped the running version")
					}
				default:
					note = "load-ok"
					if r.after.version != rtx.Fingerprint(vr.src(v.src)) {
						return viol("load-ok-not-running "+v.id, "the load succeeded but the running version is not the loaded source")
					}
					// every declaration kept at the same place with the same kind, name, type and keys keeps its data and expiry
					for _, nm := range r.after.ms {
						for _, om := range r.before.ms {
							if om.desc != nm.desc {
								continue
							}
							for _, k := range om.order {
								if nm.labels[k] != om.labels[k] {
									return viol("kept-declaration-lost-state "+v.id, fmt.Sprintf("declaration %s is unchanged by the reload, but label set %s was %s before and is %q after", om.desc, k, om.labels[k], nm.labels[k]))
								}
							}
						}
					}
				}
			}
			if r.after.other != r.before.other && last.kind != "line" {
				return viol("other-program-changed", fmt.Sprintf("%s changed the metrics of q.mtail:\nbefore:\n%s\nafter:\n%s", last, r.before.other, r.after.other))
			}
			if r.inconsistent != "" {
				return viol("slice-index-inconsistent", "a metric lists a label set that lookups do not find (or the reverse): "+r.inconsistent)
			}
			if r.histogram != "" {
				return viol("histogram-malformed", r.histogram)
			}
			if r.dup != "" {
				return hsx.Result{Violation: "history: " + hstr + "\n" + r.dup, VKey: "duplicate-series " + r.dupKey}
			}
			// differential: failed loads must be invisible to everything that follows
			anyFailed := false
			for _, f := range r.failed {
				anyFailed = anyFailed || f
			}
			if anyFailed && last.kind != "load" {
				r2 := execute(h, r.failed, withOther, vr, opts...)
				if r2.bad != "" {
					return viol("anomaly-without-failed-loads", r2.bad)
				}
				if r2.after.dump != r.after.dump || r2.after.version != r.after.version {
					return viol("failed-load-visible-later", fmt.Sprintf("the history with its failed loads and the same history without them end in different exports:\nwith:\n%s\nwithout:\n%s", r.after.dump, r2.after.dump))
				}
				note += "+diff"
			}
			return hsx.Result{Key: key, Note: note}
		},
	}
}

func firstLine(s string) string { return strings.SplitN(s, "\n", 2)[0] }

func short(s string) string {
	if len(s) > 8 {
		return s[:8]
	}
	if s == "" {
		return "<none>"
	}
	return s
}

func main() {
	hsx.QuietGlog()
	c := vlib.Init("model_checking")
	lines := []string{"k a", "k b", "o a", "d a"}
	all := []int{0, 1, 2, 3, 4, 5, 6, 7, 8, 9}
	var cfgs []hsx.Config
	if c.Quick() {
		cfgs = append(cfgs,
			mkConfig(c, "with-other-program/depth4", all, lines, true, 4, variant{}),
			mkConfig(c, "alone/core-versions/depth5", []int{1, 2, 3, 4, 6, 9}, []string{"k a", "o a", "d a"}, false, 5, variant{}),
			mkConfig(c, "with-size-limit/depth4", []int{1, 2, 6, 8, 9}, []string{"k a", "k b", "o a"}, false, 4, variant{limit: true}),
			mkConfig(c, "via-program-directory/depth3", all, []string{"k a", "o a"}, true, 3, variant{viaDir: true}),
			mkConfig(c, "omit-metric-source/depth3", all, []string{"k a", "o a"}, false, 3, variant{}, runtime.OmitMetricSource()),
			mkConfig(c, "histogram-declarations/depth4", []int{10, 11, 12, 13, 7}, []string{"h 1.5", "h 3"}, false, 4, variant{}),
			mkConfig(c, "registration-refused-half-way/depth4", []int{2, 9, 14}, []string{"k a", "k b"}, false, 4, variant{}),
		)
	} else {
		cfgs = append(cfgs,
			mkConfig(c, "with-other-program/depth5", all, lines, true, 5, variant{}),
			mkConfig(c, "alone/depth5", all, lines, false, 5, variant{}),
			mkConfig(c, "alone/core-versions/depth7", []int{1, 2, 3, 4, 6, 9}, []string{"k a", "o a", "d a"}, false, 7, variant{}),
			mkConfig(c, "with-size-limit/depth5", all, lines, false, 5, variant{limit: true}),
			mkConfig(c, "via-program-directory/depth4", all, lines, true, 4, variant{viaDir: true}),
			mkConfig(c, "omit-metric-source/depth4", all, lines, false, 4, variant{}, runtime.OmitMetricSource()),
			mkConfig(c, "histogram-declarations/depth6", []int{10, 11, 12, 13, 7}, []string{"h 1.5", "h 3", "h 0.5"}, false, 6, variant{}),
			mkConfig(c, "registration-refused-half-way/depth6", []int{2, 3, 9, 14}, []string{"k a", "k b", "o a"}, false, 6, variant{}),
		)
	}
	c.Assume = []string{
		"histories run under the default schedule of the controlled scheduler with a quiescence barrier after every step (reload racing with a line in flight is C20)",
		"'export' is observed as the store contents registered for the program (metric descriptors incl. declaration position, label sets, values, expiry marks); timestamps are excluded because they are processing time",
		"a duplicate series is two registered metrics of one program with the same name that both carry some label set",
	}
	hsx.Explore(c, "explicit-state BFS from the state 'V0 loaded' over histories of {load(Vi) for 10 versions of one file: identical, comment appended, declaration moved down, kind changed, value type changed, keys changed, syntax error, a name clashing with another program's metric, body-only edit; lines that create label sets, create one with an old timestamp and a pending expiry, mark one for expiry; Store.Gc; unload}; per transition: identical source changes neither store nor VM identity; a failed load leaves store and VM untouched and (differential) stays invisible in every continuation; a kept declaration keeps label sets, values and expiry marks; no two registered metrics of the program share a name and a label set; the other program's metrics are untouched", cfgs...)
}
