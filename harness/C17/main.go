// C17 — pipes and sockets deliver all bytes, never splice connections, then end.
// The goroutines of these streams park in the runtime's network poller, which a
// cooperative scheduler cannot own, so the controlled scheduler is not used
// here.  What is enumerated exhaustively is the ORDER OF ENVIRONMENT EVENTS on
// real kernel objects: for 1-2 (thorough 3) writers with scripts of writes
// (complete line / unterminated fragment) ending in a close, every interleaving
// of the scripts, with a cancellation at the end (thorough: at every position),
// in two modes: settled (wait until the stream has consumed each event) and
// burst (all events back to back).
package main

import (
	"bufio"
	"context"
	"encoding/json"
	"fmt"
	"net"
	"os"
	"os/exec"
	"path/filepath"
	"runtime"
	"strings"
	"sync"
	"syscall"
	"time"

	"github.com/google/mtail/internal/tailer/logstream"
	"github.com/google/mtail/internal/waker"
	"github.com/google/mtail/internal/zverif/vlib"
)

type ev struct {
	w    int    // writer
	kind byte   // 'L' complete line, 'F' fragment, 'C' close, 'X' cancel the stream
	data string // bytes written
}

func (e ev) String() string {
	switch e.kind {
	case 'E':
		return fmt.Sprintf("w%d:write-empty-datagram", e.w)
	case 'C':
		return fmt.Sprintf("w%d:close", e.w)
	case 'X':
		return "cancel"
	case 'B', 'U':
		return fmt.Sprintf("w%d:write-datagram-of-%d-bytes", e.w, len(e.data))
	}
	return fmt.Sprintf("w%d:write(%q)", e.w, e.data)
}

// scripts: all sequences of <=2 writes over {line, fragment}, then close
func scripts(maxWrites int, alphabet ...byte) [][]byte {
	if len(alphabet) == 0 {
		alphabet = []byte{'L', 'F'}
	}
	out := [][]byte{{'C'}}
	var rec func(cur []byte)
	rec = func(cur []byte) {
		if len(cur) > 0 {
			out = append(out, append(append([]byte{}, cur...), 'C'))
		}
		if len(cur) == maxWrites {
			return
		}
		for _, k := range alphabet {
			rec(append(cur, k))
		}
	}
	rec(nil)
	return out
}

// merges returns all interleavings of the scripts.
func merges(ss [][]byte) [][]ev {
	var out [][]ev
	pos := make([]int, len(ss))
	var cur []ev
	var rec func()
	rec = func() {
		done := true
		for w := range ss {
			if pos[w] < len(ss[w]) {
				done = false
				k := ss[w][pos[w]]
				e := ev{w: w, kind: k}
				if k == 'E' {
					e.data = "" // a zero-length datagram
				} else if k == 'B' || k == 'U' {
					// one large datagram made of 100-byte lines: 100 000 bytes (unixgram; below the 128 KiB read
					// buffer) or 60 000 bytes (udp; below the 65 507-byte payload limit)
					n := 1000
					if k == 'U' {
						n = 600
					}
					var b strings.Builder
					for i := 0; i < n; i++ {
						l := fmt.Sprintf("w%dp%dB%04d", w, pos[w], i)
						b.WriteString(l + strings.Repeat(".", 99-len(l)) + "\n")
					}
					e.data = b.String()
				} else if k != 'C' {
					e.data = fmt.Sprintf("w%dp%d", w, pos[w])
					if k == 'L' {
						e.data += "\n"
					}
				}
				pos[w]++
				cur = append(cur, e)
				rec()
				cur = cur[:len(cur)-1]
				pos[w]--
			}
		}
		if done {
			out = append(out, append([]ev{}, cur...))
		}
	}
	rec()
	return out
}

type collector struct {
	mu     sync.Mutex
	lines  []string
	closed bool
}

func (c *collector) snapshot() ([]string, bool) {
	c.mu.Lock()
	defer c.mu.Unlock()
	return append([]string{}, c.lines...), c.closed
}

// waitFor polls cond with a generous guard; it returns false if the guard expires.
var guard = 20 * time.Second

func waitFor(cond func() bool) bool {
	deadline := time.Now().Add(guard)
	for !cond() {
		if time.Now().After(deadline) {
			return false
		}
		time.Sleep(200 * time.Microsecond)
	}
	return true
}

type result struct {
	lines    []string
	closed   bool
	timedOut string
	err      string
}

// runScenario executes one event order on a fresh kernel object.
func runScenario(kind string, nw int, events []ev, settled bool, dir string, seq int) result {
	var res result
	ctx, cancel := context.WithCancel(context.Background())
	defer cancel()
	var wg sync.WaitGroup
	wk := waker.NewTimed(ctx, time.Millisecond)
	var target string
	var dialNet, dialAddr string
	switch kind {
	case "fifo":
		target = filepath.Join(dir, fmt.Sprintf("p%d", seq))
		if err := syscall.Mkfifo(target, 0o600); err != nil {
			res.err = err.Error()
			return res
		}
	case "unix":
		dialNet, dialAddr = "unix", filepath.Join(dir, fmt.Sprintf("s%d", seq))
		target = "unix://" + dialAddr
	case "unixgram":
		dialNet, dialAddr = "unixgram", filepath.Join(dir, fmt.Sprintf("g%d", seq))
		target = "unixgram://" + dialAddr
	case "tcp", "udp":
		// a kernel-chosen free port
		if kind == "tcp" {
			l, err := net.Listen("tcp", "127.0.0.1:0")
			if err != nil {
				res.err = err.Error()
				return res
			}
			dialAddr = l.Addr().String()
			l.Close()
		} else {
			l, err := net.ListenPacket("udp", "127.0.0.1:0")
			if err != nil {
				res.err = err.Error()
				return res
			}
			dialAddr = l.LocalAddr().String()
			l.Close()
		}
		dialNet = kind
		target = kind + "://" + dialAddr
	}
	ls, err := logstream.New(ctx, &wg, wk, target, logstream.OneShotDisabled)
	if err != nil {
		res.err = "logstream.New: " + err.Error()
		return res
	}
	col := &collector{}
	go func() {
		for l := range ls.Lines() {
			col.mu.Lock()
			col.lines = append(col.lines, l.Line)
			col.mu.Unlock()
		}
		col.mu.Lock()
		col.closed = true
		col.mu.Unlock()
	}()
	// all writers connect before the first event, so that the stream never sees "no writer" in between
	type writer interface {
		Write([]byte) (int, error)
		Close() error
	}
	ws := make([]writer, nw)
	for i := range ws {
		if kind == "fifo" {
			f, err := os.OpenFile(target, os.O_WRONLY, 0)
			if err != nil {
				res.err = "open fifo for writing: " + err.Error()
				cancel()
				return res
			}
			ws[i] = f
		} else {
			c, err := net.Dial(dialNet, dialAddr)
			if err != nil {
				res.err = "dial: " + err.Error()
				cancel()
				return res
			}
			ws[i] = c
		}
	}
	wantLines := 0 // complete lines expected so far (settled mode barrier)
	pendingFrag := map[int]bool{}
	cancelled := false
	closedWriters, wrote := 0, false
	for _, e := range events {
		switch e.kind {
		case 'L', 'F', 'E', 'B', 'U':
			if _, err := ws[e.w].Write([]byte(e.data)); err != nil {
				res.err = fmt.Sprintf("%s: %v", e, err)
			}
			wrote = true
			if e.kind == 'L' {
				wantLines++
				pendingFrag[e.w] = false
			} else if e.kind == 'B' || e.kind == 'U' {
				wantLines += strings.Count(e.data, "\n")
			} else if e.kind == 'F' {
				pendingFrag[e.w] = true
			}
		case 'C':
			_ = ws[e.w].Close()
			closedWriters++
			if pendingFrag[e.w] && (kind == "unix" || kind == "tcp") {
				wantLines++ // the connection's tail becomes a line when it closes
				pendingFrag[e.w] = false
			}
		case 'X':
			if settled && kind == "fifo" && closedWriters == nw && wrote {
				// a pipe whose writers have all closed ends by itself, after delivering its tail
				if !waitFor(func() bool { _, c := col.snapshot(); return c }) {
					res.timedOut = "the fifo stream did not end after all writers closed"
				}
			}
			cancel()
			cancelled = true
		}
		if settled && !cancelled && res.err == "" {
			n := wantLines
			if kind == "fifo" || kind == "unixgram" || kind == "udp" {
				// the bytes of all writers share one buffer: only newline-terminated writes complete a line
				n = lowerBoundLines(events, e)
			}
			if !waitFor(func() bool { l, _ := col.snapshot(); return len(l) >= n }) {
				res.timedOut = fmt.Sprintf("after %s: %d lines expected to have been delivered", e, n)
				break
			}
		}
	}
	if !cancelled {
		// fifo streams end by themselves when all writers have closed; everything else ends on cancellation
		if kind == "fifo" && anyWrite(events) {
			if !waitFor(func() bool { _, c := col.snapshot(); return c }) {
				res.timedOut = "the fifo stream did not end after all writers closed"
			}
		}
		if kind != "fifo" && settled {
			// give the stream the chance to consume what was written before it is cancelled
			time.Sleep(2 * time.Millisecond)
		}
		cancel()
	}
	if !waitFor(func() bool { _, c := col.snapshot(); return c }) {
		if res.timedOut == "" {
			res.timedOut = "the stream's output channel did not close after cancellation"
		}
	}
	for _, w := range ws {
		_ = w.Close()
	}
	done := make(chan struct{})
	go func() { wg.Wait(); close(done) }()
	select {
	case <-done:
	case <-time.After(20 * time.Second):
		if res.timedOut == "" {
			res.timedOut = "the stream's goroutines did not finish"
		}
	}
	res.lines, res.closed = col.snapshot()
	return res
}

func anyWrite(events []ev) bool {
	for _, e := range events {
		if e.kind == 'L' || e.kind == 'F' || e.kind == 'B' || e.kind == 'U' {
			return true
		}
	}
	return false
}

// lowerBoundLines counts the complete lines written up to and including event e.
func lowerBoundLines(events []ev, e ev) int {
	n := 0
	for _, x := range events {
		if x.kind == 'L' {
			n++
		}
		if x.kind == 'B' || x.kind == 'U' {
			n += strings.Count(x.data, "\n")
		}
		if x == e {
			break
		}
	}
	return n
}

// streamBytes returns the byte streams the receiver sees: one per connection (stream sockets) or
// sender (datagram sockets), a single merged one for a pipe; tailClosed says whether the stream's
// writer(s) closed before the cancellation, which is when an unterminated tail must be delivered.
func streamBytes(kind string, nw int, events []ev) (streams []string, tailClosed []bool) {
	upto := len(events)
	for i, e := range events {
		if e.kind == 'X' {
			upto = i
			break
		}
	}
	if kind == "fifo" {
		var b strings.Builder
		closed := 0
		for _, e := range events[:upto] {
			b.WriteString(e.data)
			if e.kind == 'C' {
				closed++
			}
		}
		return []string{b.String()}, []bool{closed == nw}
	}
	for w := 0; w < nw; w++ {
		var b strings.Builder
		cl := false
		for _, e := range events[:upto] {
			if e.w == w {
				b.WriteString(e.data)
				if e.kind == 'C' {
					cl = true
				}
			}
		}
		streams = append(streams, b.String())
		// a datagram receiver cannot see a sender close
		tailClosed = append(tailClosed, cl && (kind == "unix" || kind == "tcp"))
	}
	return
}

// judge compares delivered lines with the expectation; it returns "" or a class and a description.
func judge(kind string, nw int, events []ev, settled bool, r result) (string, string) {
	if r.err != "" {
		return "harness", r.err
	}
	if r.timedOut != "" {
		return "stalled", r.timedOut
	}
	if !r.closed {
		return "not-closed", "the stream's output did not end"
	}
	streams, tailClosed := streamBytes(kind, nw, events)
	type exp struct {
		lines []string // newline-terminated: mandatory (settled mode)
		tail  string   // unterminated remainder
	}
	want := make([]exp, len(streams))
	for i, s := range streams {
		parts := strings.Split(s, "\n")
		want[i] = exp{lines: parts[:len(parts)-1], tail: parts[len(parts)-1]}
	}
	idx := make([]int, len(want))
	tailSeen := make([]bool, len(want))
	for _, l := range r.lines {
		matched := false
		for s := range want {
			if idx[s] < len(want[s].lines) && want[s].lines[idx[s]] == l {
				idx[s]++
				matched = true
				break
			}
			// the tail, or (when its writer had not closed: no barrier tells us how much of it was read) a prefix of it
			if idx[s] == len(want[s].lines) && want[s].tail != "" && !tailSeen[s] && (want[s].tail == l || (!tailClosed[s] && l != "" && strings.HasPrefix(want[s].tail, l))) {
				tailSeen[s] = true
				matched = true
				break
			}
		}
		if matched {
			continue
		}
		owners := map[byte]bool{}
		for i := 0; i+1 < len(l); i++ {
			if l[i] == 'w' && l[i+1] >= '0' && l[i+1] <= '9' {
				owners[l[i+1]] = true
			}
		}
		if len(owners) > 1 && kind != "fifo" {
			return "spliced", fmt.Sprintf("delivered line %q is made of bytes of %d different writers", l, len(owners))
		}
		if !settled {
			continue // without a barrier after every event a line may be cut where the stream stopped reading
		}
		return "unexpected-line", fmt.Sprintf("delivered line %q is not the next line (or the tail) of any byte stream; streams: %q; delivered: %q", l, streams, r.lines)
	}
	if settled {
		for s := range want {
			if idx[s] != len(want[s].lines) {
				return "lost", fmt.Sprintf("stream %d: %d of its %d newline-terminated lines were delivered; streams: %q; delivered: %q", s, idx[s], len(want[s].lines), streams, r.lines)
			}
			if want[s].tail != "" && tailClosed[s] && !tailSeen[s] {
				return "lost-tail", fmt.Sprintf("stream %d was closed by its writer with the unterminated tail %q pending, which was not delivered; delivered: %q", s, want[s].tail, r.lines)
			}
		}
	}
	return "", ""
}

func main() {
	c := vlib.Init("exploration")
	// one scratch directory on tmpfs for the whole run: workers get a subdirectory of the parent's, which the
	// parent removes at the end (workers are killed, they cannot clean up)
	var dir string
	var err error
	if wd := os.Getenv("C17_WORKER"); wd != "" {
		dir = filepath.Join(wd, fmt.Sprintf("w%d", os.Getpid()))
		err = os.MkdirAll(dir, 0o755)
	} else {
		dir, err = os.MkdirTemp("/dev/shm", "c17.")
	}
	if err != nil {
		fmt.Println("ENGINE-ERROR", err)
		os.Exit(2)
	}
	kinds := []string{"fifo", "unix", "tcp", "unixgram", "udp"}
	type job struct {
		kind    string
		nw      int
		events  []ev
		settled bool
	}
	var jobs []job
	sc := scripts(2)
	addOrders := func(kind string, ss [][]byte) {
		for _, m := range merges(ss) {
			// cancellation at the end; thorough and single-writer: at every position
			positions := []int{len(m)}
			if c.Thorough() || len(ss) == 1 {
				positions = nil
				for p := 0; p <= len(m); p++ {
					positions = append(positions, p)
				}
			}
			for _, p := range positions {
				evs := append(append(append([]ev{}, m[:p]...), ev{kind: 'X'}), m[p:]...)
				if p == len(m) {
					evs = append(append([]ev{}, m...), ev{kind: 'X'})
				} else {
					evs = evs[:p+1] // nothing is written after a cancellation
				}
				for _, settled := range []bool{true, false} {
					jobs = append(jobs, job{kind, len(ss), evs, settled})
				}
			}
		}
	}
	for _, k := range kinds {
		// cancellation of a stream nobody ever wrote to
		jobs = append(jobs, job{k, 0, []ev{{kind: 'X'}}, true})
		if k == "unixgram" || k == "udp" {
			// zero-length datagrams are legal and must not end the stream
			for _, a := range scripts(3, 'L', 'E') {
				addOrders(k, [][]byte{a})
			}
			for _, a := range scripts(2, 'L', 'E') {
				for _, b := range scripts(1, 'L', 'E') {
					addOrders(k, [][]byte{a, b})
				}
			}
			// datagrams near the size limits
			big := byte('B')
			if k == "udp" {
				big = 'U'
			}
			for _, a := range [][]byte{{big, 'C'}, {'L', big, 'L', 'C'}, {big, big, 'C'}} {
				addOrders(k, [][]byte{a})
			}
		}
		for _, a := range sc {
			addOrders(k, [][]byte{a})
			for _, b := range sc {
				addOrders(k, [][]byte{a, b})
			}
		}
		if c.Thorough() {
			s1 := scripts(1)
			for _, a := range s1 {
				for _, b := range s1 {
					for _, d := range s1 {
						addOrders(k, [][]byte{a, b, d})
					}
				}
			}
		}
	}
	describe := func(j job) (string, string, []string) {
		var es []string
		for _, e := range j.events {
			es = append(es, e.String())
		}
		mode := "burst"
		if j.settled {
			mode = "settled"
		}
		return fmt.Sprintf("%s %s [%s]", j.kind, mode, strings.Join(es, " ")), mode, es
	}
	// worker mode: a panic inside a stream goroutine kills the whole process, so event orders are executed in
	// worker subprocesses; the parent hands out job indices and treats a dead worker as a crash of that job
	if os.Getenv("C17_WORKER") != "" {
		in := bufio.NewScanner(os.Stdin)
		seq := 0
		for in.Scan() {
			var i int
			fast := ""
			fmt.Sscan(in.Text(), &i, &fast)
			j := jobs[i]
			cls, what := "", ""
			// a failure must reproduce on three consecutive executions of the same event order; once the parent
			// has collected several confirmed violations the tree is condemned anyway and the remaining orders are
			// run once with a short guard so that the run ends soon
			attempts := 3
			guard = 20 * time.Second
			if fast == "f" {
				attempts, guard = 1, 1500*time.Millisecond
			}
			for attempt := 0; attempt < attempts; attempt++ {
				seq++
				r := runScenario(j.kind, j.nw, j.events, j.settled, dir, seq)
				cls, what = judge(j.kind, j.nw, j.events, j.settled, r)
				if cls == "" {
					break
				}
			}
			b, _ := json.Marshal([]string{cls, what})
			fmt.Printf("C17R %s\n", b)
		}
		os.Exit(0)
	}
	type wproc struct {
		cmd *exec.Cmd
		in  *bufio.Writer
		out *bufio.Scanner
		err *os.File
	}
	spawn := func(k int) *wproc {
		cmd := exec.Command(os.Args[0], os.Args[1:]...)
		cmd.Env = append(os.Environ(), "C17_WORKER="+dir)
		ef, _ := os.Create(filepath.Join(dir, fmt.Sprintf("worker%d.stderr", k)))
		cmd.Stderr = ef
		stdin, _ := cmd.StdinPipe()
		stdout, _ := cmd.StdoutPipe()
		if err := cmd.Start(); err != nil {
			fmt.Println("ENGINE-ERROR cannot start worker:", err)
			os.Exit(2)
		}
		sc := bufio.NewScanner(stdout)
		sc.Buffer(make([]byte, 1<<20), 1<<24)
		return &wproc{cmd, bufio.NewWriter(stdin), sc, ef}
	}
	nwk := runtime.NumCPU()
	procs := make([]*wproc, nwk)
	for k := range procs {
		procs[k] = spawn(k)
	}
	vlib.ParallelW(len(jobs), nwk, func(w, i int) {
		j := jobs[i]
		ident, mode, es := describe(j)
		p := procs[w]
		if c.NumViolations() >= 5 {
			fmt.Fprintf(p.in, "%d f\n", i)
		} else {
			fmt.Fprintf(p.in, "%d\n", i)
		}
		p.in.Flush()
		cls, what := "", ""
		got := false
		for p.out.Scan() {
			line := p.out.Text()
			if strings.HasPrefix(line, "C17R ") {
				var r []string
				_ = json.Unmarshal([]byte(line[5:]), &r)
				if len(r) == 2 {
					cls, what = r[0], r[1]
				}
				got = true
				break
			}
		}
		if !got {
			// the worker died: the process-wide crash is the finding
			_ = p.cmd.Wait()
			p.err.Close()
			b, _ := os.ReadFile(p.err.Name())
			txt := string(b)
			if k := strings.Index(txt, "panic:"); k >= 0 {
				txt = txt[k:]
			}
			if len(txt) > 1500 {
				txt = txt[:1500]
			}
			first := strings.SplitN(strings.TrimSpace(txt), "\n", 2)[0]
			where := ""
			for _, l := range strings.Split(txt, "\n") {
				if strings.Contains(l, "/logstream.") && !strings.Contains(l, "LineReader") {
					where = strings.TrimSpace(strings.SplitN(l, "(", 2)[0])
					where = where[strings.LastIndex(where, "/")+1:]
					break
				}
			}
			cls, what = "crash", "the process crashed while executing this event order:\n"+txt
			procs[w] = spawn(w)
			c.Eval(ident)
			c.Report(fmt.Sprintf("crash %s: %s in %s", j.kind, first, where), ident+"\n"+what, map[string]interface{}{"stream": j.kind, "mode": mode, "events": es})
			return
		}
		c.Eval(ident)
		if cls == "harness" {
			c.CapHit("a scenario could not be set up: " + what)
			return
		}
		if cls != "" {
			key := cls + " " + ident
			if cls == "spliced" && (j.kind == "unixgram" || j.kind == "udp") {
				key = "spliced-datagram-senders " + j.kind
			}
			c.Report(key, ident+"\n"+what, map[string]interface{}{"stream": j.kind, "mode": mode, "events": es})
		}
		if i%997 == 5 {
			c.Sample(map[string]interface{}{"stream": j.kind, "mode": mode, "events": es})
		}
	})
	for _, p := range procs {
		_ = p.cmd.Process.Kill()
	}
	os.RemoveAll(dir) // Finish exits the process: deferred calls do not run
	c.Set("event_orders", len(jobs))
	c.Assume = []string{
		"the goroutine schedule inside the stream relative to the kernel is not controlled (network poller); only the order of environment events is exhaustive; per-connection framing under all chunkings is C15",
		"settled mode waits (20 s guard, polled) until the stream has delivered the lines complete so far; a failure must reproduce on three consecutive executions of the same event order before it is reported",
		"in burst mode and after an early cancellation only splicing, closure and termination are judged (data written but not yet read when the stream is cancelled may be lost)",
		"standard input is the same code path as a named pipe (fifoStream on os.Stdin) and is not driven separately",
	}
	c.Finish("for each of named pipe, unix and tcp stream sockets, unixgram and udp datagram sockets: 1-2 writers (thorough 3) with every script of <=2 writes over {complete line, unterminated fragment} (datagram sockets also: <=3 writes over {complete line, zero-length datagram}) ending in close, plus datagrams of 100 000 bytes (unixgram) / 60 000 bytes (udp) made of 100-byte lines, every interleaving of the scripts, cancellation at the end (single writer and thorough: at every position), settled and burst mode, on real kernel objects: per connection / pipe the newline-terminated data arrives as lines in write order, a stream connection's or pipe's tail arrives once at close, no delivered line mixes bytes of two connections or senders, the output ends after writer close (pipe) or cancellation, all goroutines finish; distinct_nontrivial = distinct (stream, mode, event order)")
}
