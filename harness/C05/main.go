// C05 — a line's effect never depends on earlier lines except through metrics.
// Differential: VM1 runs history+line; VM2 is a fresh compile whose metrics are
// populated from VM1's metric state after the history; both then process the
// line; stores and runtime-error behaviour must agree.
package main

import (
	"fmt"
	"runtime"
	"sort"
	"strings"
	"time"

	"github.com/google/mtail/internal/metrics"
	"github.com/google/mtail/internal/metrics/datum"
	"github.com/google/mtail/internal/zverif/shared/mt"
	"github.com/google/mtail/internal/zverif/vlib"
)

type fam struct {
	name  string
	src   string
	lines []string
}

var fams = []fam{
	{"strptime-one-layout", `counter hits
gauge ts
/^(\S+) / {
  strptime($1, "2006-01-02T15:04:05Z07:00")
  ts = timestamp()
  hits++
}
`, []string{"2020-01-02T03:04:05Z a", "2021-05-06T07:08:09Z b", "bogus c", "2020-01-02T03:04:05Z d", "nomatch"}},
	{"strptime-two-layouts", `counter hits by kind
gauge ts by kind
/^A (\S+)/ {
  strptime($1, "2006-01-02")
  ts["a"] = timestamp()
  hits["a"]++
}
/^B (\S+)/ {
  strptime($1, "2006-02-01")
  ts["b"] = timestamp()
  hits["b"]++
}
`, []string{"A 2020-03-04", "B 2020-03-04", "A 2020-13-04", "B 2020-13-04", "A x"}},
	{"failing-conversion", `counter before
counter aft
gauge val
/^(\S+)/ {
  before++
  val = int($1)
  aft++
}
`, []string{"1", "x", "2", "", "9999999999999999999"}},
	{"stop-and-otherwise", `counter a
counter b
counter other
/^a/ {
  a++
  stop
}
/^b/ {
  b++
}
otherwise {
  other++
}
`, []string{"a", "b", "c", "ab"}},
	{"captures-in-nested-blocks", `gauge g by k
counter n
/^(?P<k>\w+) (?P<v>\d+)/ {
  n++
  /7/ {
    g[$k] = $v
  } else {
    g[$k] += 1
  }
}
`, []string{"x 7", "x 3", "y 17", "z", "x 70"}},
	{"add-assign-types", `counter ci
gauge gf
text t
/^(\d+) (\d+\.\d+) (\w+)/ {
  ci += $1
  gf += $2
  t += $3
}
`, []string{"1 0.5 a", "2 1.5 b", "x", "3 2.25 c"}},
	{"del-and-expire", `counter c by k
/^add (\w+)/ {
  c[$1]++
}
/^del (\w+)/ {
  del c[$1]
}
/^exp (\w+)/ {
  del c[$1] after 1h
}
`, []string{"add a", "add b", "del a", "exp a", "exp b", "del z"}},
	{"runtime-error-then-normal", `counter lines
gauge q
/^(\d+) (\d+)/ {
  q = $1 / $2
  lines++
}
/^s (\d+)/ {
  q = 1 << $1
  lines++
}
`, []string{"4 2", "4 0", "s 3", "s 99999999999", "6 3"}},
	{"settime", `gauge ts
counter n
/^t (\d+)/ {
  settime($1)
  ts = timestamp()
  n++
}
/^u/ {
  n++
}
/^r/ {
  ts = timestamp()
}
`, []string{"t 1000", "t 2000", "u", "t 0", "r"}},
	{"stop-as-last-instruction", `counter requests
counter other
/^GET/ {
  requests++
} else {
  other++
  stop
}
`, []string{"GET /a", "POST /b", "GET /c", "x"}},
	{"toplevel-stop-last", `counter seen
/^s/ {
  seen++
}
stop
`, []string{"s1", "t", "s2"}},
	{"strptime-then-plain", `counter stamped
counter plain
gauge seen
/^(\d{4}-\d\d-\d\d) / {
  strptime($1, "2006-01-02")
  stamped++
}
/plain/ {
  plain++
  seen = timestamp()
}
`, []string{"2001-02-03 x", "2001-02-03 plain", "plain", "other"}},
}

func snapshotInto(src, dst []*metrics.Metric) error {
	if len(src) != len(dst) {
		return fmt.Errorf("metric count differs")
	}
	for i, m := range src {
		d := dst[i]
		// drop what the fresh compile created (initialised scalar counters), then copy
		for len(d.LabelValues) > 0 {
			if err := d.RemoveDatum(d.LabelValues[0].Labels...); err != nil {
				return err
			}
		}
		for _, lv := range m.LabelValues {
			nd, err := d.GetDatum(lv.Labels...)
			if err != nil {
				return err
			}
			ts := lv.Value.TimeUTC()
			switch x := lv.Value.(type) {
			case *datum.Int:
				datum.SetInt(nd, x.Get(), ts)
			case *datum.Float:
				datum.SetFloat(nd, x.Get(), ts)
			case *datum.String:
				datum.SetString(nd, x.Get(), ts)
			default:
				return fmt.Errorf("unsupported datum %T", x)
			}
			if lv.Expiry != 0 {
				if err := d.ExpireDatum(lv.Expiry, lv.Labels...); err != nil {
					return err
				}
			}
		}
	}
	return nil
}

// maskNow dumps the program's metrics with every integer value inside the clock
// bracket (seconds) replaced by the token NOW.
func maskNow(p *mt.Prog, t0, t1 time.Time) string {
	var out []string
	for _, m := range p.VM.Metrics {
		for _, lv := range m.LabelValues {
			v := mt.Val(lv.Value)
			if x, ok := lv.Value.(*datum.Int); ok {
				if g := x.Get(); g >= t0.Unix()-1 && g <= t1.Unix()+1 {
					v = "i:NOW"
				}
			}
			out = append(out, fmt.Sprintf("%s %q = %s !%v", m.Name, lv.Labels, v, lv.Expiry))
		}
	}
	sort.Strings(out)
	return strings.Join(out, "\n")
}

// compareStamps compares datum time stamps of the two VMs: equal, or both
// inside the clock bracket of the step (processing time).
func compareStamps(p1, p2 *mt.Prog, t0, t1 time.Time) string {
	for i, m := range p1.VM.Metrics {
		if i >= len(p2.VM.Metrics) {
			break
		}
		m2 := p2.VM.Metrics[i]
		for _, lv := range m.LabelValues {
			lv2 := m2.FindLabelValueOrNil(lv.Labels)
			if lv2 == nil {
				continue
			}
			a, b := lv.Value.TimeUTC(), lv2.Value.TimeUTC()
			if a.Equal(b) {
				continue
			}
			in := func(t time.Time) bool { return !t.Before(t0) && !t.After(t1) }
			if in(a) && in(b) {
				continue
			}
			return fmt.Sprintf("%s%q is stamped %s with the history and %s in the fresh copy (clock bracket of the step: %s .. %s)", m.Name, lv.Labels, a.Format(time.RFC3339Nano), b.Format(time.RFC3339Nano), t0.UTC().Format(time.RFC3339Nano), t1.UTC().Format(time.RFC3339Nano))
		}
	}
	return ""
}

func runCase(c *vlib.Ctx, w int, f fam, hist []string, line string) {
	n1, n2 := fmt.Sprintf("w%d-hist", w), fmt.Sprintf("w%d-fresh", w)
	p1, err := mt.Load(n1, f.src, mt.Opts{Loc: time.UTC})
	if err != nil {
		c.Report("compile "+f.name, err.Error(), f.src)
		return
	}
	for _, h := range hist {
		p1.Line("log", h)
	}
	p2, err := mt.Load(n2, f.src, mt.Opts{Loc: time.UTC})
	if err != nil {
		c.Report("compile "+f.name, err.Error(), f.src)
		return
	}
	if err := snapshotInto(p1.VM.Metrics, p2.VM.Metrics); err != nil {
		c.Report("harness "+f.name, err.Error(), nil)
		return
	}
	if a, b := p1.Dump(true), p2.Dump(true); a != b {
		c.Report("harness-snapshot "+f.name, "snapshot not faithful:\n"+a+"\nvs\n"+b, nil)
		return
	}
	tBefore := time.Now()
	e1, _ := p1.Line("log", line)
	e2, _ := p2.Line("log", line)
	tAfter := time.Now()
	d1, d2 := p1.Dump(false), p2.Dump(false)
	if d1 != d2 {
		// values that are "the time of processing" legitimately differ between the two VMs: mask integer
		// values that both lie inside the clock bracket of this step
		d1, d2 = maskNow(p1, tBefore, tAfter), maskNow(p2, tBefore, tAfter)
	}
	stampDiff := compareStamps(p1, p2, tBefore, tAfter)
	rep := map[string]interface{}{"family": f.name, "history": hist, "line": line, "program": f.src}
	key := fmt.Sprintf("%s history=%q line=%q", f.name, hist, line)
	if e1 != e2 {
		c.Report("error-differs "+key, fmt.Sprintf("after history %q the line %q raised %d runtime errors; in a fresh copy with the same metric values it raised %d", hist, line, e1, e2), rep)
	} else if d1 == d2 && stampDiff != "" {
		c.Report("stamp-differs "+key, fmt.Sprintf("after history %q the line %q stamped data differently than in a fresh copy with the same metric values: %s", hist, line, stampDiff), rep)
	} else if d1 != d2 {
		c.Report("effect-differs "+key, fmt.Sprintf("after history %q the line %q left\n%s\nbut in a fresh copy with the same metric values it left\n%s", hist, line, d1, d2), rep)
	}
	nt := ""
	if len(hist) > 0 {
		nt = key
	}
	c.Eval(nt)
}

func main() {
	c := vlib.Init("exploration")
	maxH := c.Pick(3, 6)
	type job struct {
		f    fam
		hist []string
		line string
	}
	var jobs []job
	for _, f := range fams {
		var hs [][]string
		var gen func(cur []string)
		gen = func(cur []string) {
			hs = append(hs, append([]string{}, cur...))
			if len(cur) == maxH {
				return
			}
			for _, l := range f.lines {
				gen(append(cur, l))
			}
		}
		gen(nil)
		for _, h := range hs {
			for _, l := range f.lines {
				jobs = append(jobs, job{f, h, l})
			}
		}
	}
	vlib.ParallelW(len(jobs), runtime.NumCPU(), func(w, i int) {
		j := jobs[i]
		runCase(c, w, j.f, j.hist, j.line)
		if i%997 == 3 {
			c.Sample(map[string]interface{}{"family": j.f.name, "history": j.hist, "line": j.line})
		}
	})
	c.Set("families", len(fams))
	c.Assume = []string{"datum timestamps are compared only through timestamp() values the programs store in gauges (processing-time stamps differ between the two VMs by construction)", strings.TrimSpace("histogram metrics are not part of this family (their state cannot be populated through the public datum API)")}
	c.Finish("12 program families built around per-VM carried state (strptime memo, time register, terminate flag, match registers, matched flag, runtime errors) × all (history, line) pairs with |history|<=3 (thorough 6) over each family's 4-6 line alphabet; VM with history vs fresh VM populated with the same metric values; distinct_nontrivial = distinct cases with a non-empty history")
}
