// C04 — accepted programs never fault inside the VM.
// Dynamic part: every program the compiler accepts among the mtl families
// (C01), the statement-in-context families (C03) and the example programs,
// run line by line with HardCrash set inside a recover: no panic, and every
// runtime error is one of the VM's explicit checked conditions.
package main

import (
	"fmt"
	"os"
	"path/filepath"
	"regexp"
	"runtime"
	"sort"
	"strings"
	"sync/atomic"

	"github.com/google/mtail/internal/zverif/mtl"
	"github.com/google/mtail/internal/zverif/shared/ctxgen"
	"github.com/google/mtail/internal/zverif/shared/mt"
	"github.com/google/mtail/internal/zverif/vlib"
)

// the VM's explicit, checked runtime error conditions (property statement)
var allowed = []*regexp.Regexp{
	regexp.MustCompile(`conversion of .* to (int|float) failed`),
	regexp.MustCompile(`strconv\.(ParseInt|ParseFloat|Atoi)`),
	regexp.MustCompile(`^strptime .*failed`),
	regexp.MustCompile(`Divide by zero`),
	regexp.MustCompile(`shift int out of range`),
	regexp.MustCompile(`int32 out of range`),
	regexp.MustCompile(`Not enough capture groups matched`),
	regexp.MustCompile(`No datum for given labelvalues`),
	regexp.MustCompile(`cannot compare .* with `),
}

var stripVals = regexp.MustCompile(`"[^"]*"|\b\d+(\.\d+)?\b|0x[0-9a-f]+|%!q\([^)]*\)`)

func errClass(msg string) string {
	first := strings.SplitN(msg, "\n", 2)[0]
	if i := strings.Index(first, " &{"); i >= 0 {
		first = first[:i]
	}
	first = stripVals.ReplaceAllString(first, "_")
	if len(first) > 120 {
		first = first[:120]
	}
	return first
}

// rootCause recognises the recorded type-checker leniencies by error class AND the construct in the
// statement, so that the thousands of generated statements that hit one of them share one identity;
// anything it does not recognise keeps its own identity.
func rootCause(cls, stmt string) string {
	hasAny := func(ss ...string) bool {
		for _, x := range ss {
			if strings.Contains(stmt, x) {
				return true
			}
		}
		return false
	}
	// a pattern is in value position unless it is the right operand of =~ / !~ or an operand of && / ||
	rest := regexp.MustCompile(`(=~|!~) (A\b|/x/)`).ReplaceAllString(stmt, "")
	patternAsValue := regexp.MustCompile(`(^|[^A-Za-z0-9_$"])A($|[^A-Za-z0-9_"])|/x/`).MatchString(rest)
	switch {
	case strings.Contains(cls, "Failed to pop a timestamp") && hasAny("settime("):
		return "settime() accepted with a non-integer argument"
	case patternAsValue && !hasAny(" && ", " || ") && (cls == "panic" || strings.Contains(cls, "unexpected")):
		return "a pattern (constant or literal) accepted as an operand or argument in value position"
	case (strings.Contains(cls, "type bool") || strings.Contains(cls, "for string bool")) && hasAny(" < ", " > ", " <= ", " >= ", " == ", " != ", " && ", " || ", " =~ ", " !~ "):
		return "the boolean result of a comparison accepted as a value (assigned, added, or used as an index)"
	case strings.Contains(cls, "unexpected int type float64") && hasAny("strtol(") && !hasAny(" & ", " | ", " ^ ", " << ", " >> ", "~"):
		return "strtol() accepted with a float base"
	case strings.Contains(cls, "unexpected int type float64") && hasAny(" & ", " | ", " ^ ", " << ", " >> ", "~"):
		return "a float operand accepted for a bitwise operator, a shift or ~"
	}
	return ""
}

// staticCls maps a static fault class to the run-time error class the same defect produces.
func staticCls(class string) string {
	switch {
	case strings.HasPrefix(class, "settime of"):
		return "Failed to pop a timestamp"
	case strings.HasPrefix(class, "integer operand of representation f"):
		return "unexpected int type float64"
	case strings.HasSuffix(class, "of representation b"):
		return "unexpected type bool"
	case class == "stack underflow", strings.Contains(class, "operand of representation D"), strings.Contains(class, "expects a metric"), strings.HasPrefix(class, "boolean not of"), strings.Contains(class, "operand of representation M"), strings.Contains(class, "operand of representation x"):
		return "panic"
	}
	return class
}

type prog struct {
	family, ident, src string
	lines              []string
}

func main() {
	c := vlib.Init("exploration")
	var progs []prog
	for _, cs := range mtl.All(c.Thorough()) {
		src := cs.P.String()
		progs = append(progs, prog{"mtl/" + cs.Family, src, src, cs.Lines})
	}
	for _, p := range ctxgen.All(c.Thorough()) {
		progs = append(progs, prog{"ctx/" + p.Family, p.Stmt, p.Src, ctxgen.Lines})
	}
	// accepted-but-odd programs seen while reading the checker (type inference across blocks, reads of a histogram, len() into settime)
	odd := map[string]string{
		"gauge assigned an int capture in one block and a float capture in another": "gauge x\n/^(\\d+)$/ {\n  x = $1\n}\n/^(\\d+\\.\\d+)$/ {\n  x = $1\n}\n",
		"histogram read into a gauge":               "histogram h buckets 1, 2\ngauge g\n/^(\\d+)$/ {\n  h = $1\n  g = h\n}\n",
		"settime(len(...))":                         "counter c\n/^(\\w+)$/ {\n  settime(len($1))\n  c++\n}\n",
		"timer incremented by a float":              "timer tm\n/^(\\d+\\.\\d+)$/ {\n  tm += $1\n}\n",
		"counter by numeric key read back as value": "counter m by k\ngauge g\n/^(\\d+)$/ {\n  m[$1]++\n  g = m[$1] + m[$1 + 1]\n}\n",
	}
	for n, src := range odd {
		progs = append(progs, prog{"odd", n, src, []string{"12", "1.5", "abc", "12"}})
	}
	// example programs over the repository's test logs
	repo := os.Getenv("VERIF_REPO")
	if repo == "" {
		repo = "/repo"
	}
	var logLines []string
	logs, _ := filepath.Glob(filepath.Join(repo, "internal", "mtail", "testdata", "*.log"))
	sort.Strings(logs)
	for _, l := range logs {
		b, err := os.ReadFile(l)
		if err != nil {
			continue
		}
		ls := strings.Split(string(b), "\n")
		if len(ls) > 60 {
			ls = ls[:60]
		}
		logLines = append(logLines, ls...)
	}
	logLines = append(logLines, ctxgen.Lines...)
	exs, _ := filepath.Glob(filepath.Join(repo, "examples", "*.mtail"))
	sort.Strings(exs)
	for _, e := range exs {
		b, err := os.ReadFile(e)
		if err != nil {
			continue
		}
		progs = append(progs, prog{"example", filepath.Base(e), string(b), logLines})
	}
	var accepted, linesRun, errsSeen, absStates, absTrans int64
	classes := map[string]int{}
	vlib.ParallelW(len(progs), runtime.NumCPU(), func(w, i int) {
		pr := progs[i]
		name := fmt.Sprintf("w%d.mtail", w)
		p, err := mt.Load(name, pr.src, mt.Opts{HardCrash: true})
		if err != nil {
			c.Eval("")
			return
		}
		atomic.AddInt64(&accepted, 1)
		c.Eval(pr.family + ":" + pr.src)
		// static: every reachable (pc, abstract stack) state of the emitted bytecode
		sf, ss, capped := verify(p.Obj, 200000)
		atomic.AddInt64(&absStates, int64(ss.states))
		atomic.AddInt64(&absTrans, int64(ss.transitions))
		if capped {
			c.CapHit("abstract state cap reached for a program")
		}
		for _, f := range sf {
			k := fmt.Sprintf("static [%s] %s: %s", f.class, pr.family, pr.ident)
			if rc := rootCause(staticCls(f.class), pr.ident); rc != "" && strings.HasPrefix(pr.family, "ctx/") {
				k = "accepted-but-ill-typed: " + rc
			}
			c.Report(k, fmt.Sprintf("program:\n%s\nbytecode verification: at pc %d %s with abstract stack [%s]: %s", pr.src, f.pc, f.instr, f.stack, f.class), map[string]interface{}{"family": pr.family, "program": pr.src, "pc": f.pc, "instruction": f.instr, "abstract_stack": f.stack})
		}
		// every line on a fresh VM state is covered by running the alphabet twice in sequence
		seq := append(append([]string{}, pr.lines...), pr.lines...)
		reported := map[string]bool{}
		for _, l := range seq {
			e, pan := p.Line("f", l)
			atomic.AddInt64(&linesRun, 1)
			rep := map[string]interface{}{"family": pr.family, "program": pr.src, "line": l}
			if pan != nil {
				k := fmt.Sprintf("panic %s: %s", pr.family, pr.ident)
				if rc := rootCause("panic", pr.ident); rc != "" && strings.HasPrefix(pr.family, "ctx/") {
					k = "accepted-but-ill-typed: " + rc
				}
				if !reported[k] {
					reported[k] = true
					c.Report(k, fmt.Sprintf("program:\n%s\nline %q: the VM panicked: %v", pr.src, l, pan), rep)
				}
				// the VM object may be unusable after a hard crash
				p, _ = mt.Load(name, pr.src, mt.Opts{HardCrash: true})
				continue
			}
			if e == 0 {
				continue
			}
			atomic.AddInt64(&errsSeen, 1)
			msg := p.VM.RuntimeErrorString()
			ok := false
			for _, a := range allowed {
				if a.MatchString(strings.SplitN(msg, "\n", 2)[0]) {
					ok = true
				}
			}
			if !ok {
				k := fmt.Sprintf("fault [%s] %s: %s", errClass(msg), pr.family, pr.ident)
				if rc := rootCause(errClass(msg), pr.ident); rc != "" && strings.HasPrefix(pr.family, "ctx/") {
					k = "accepted-but-ill-typed: " + rc
				}
				if !reported[k] {
					reported[k] = true
					c.Report(k, fmt.Sprintf("program:\n%s\nline %q: runtime error that is not one of the VM's checked conditions: %s", pr.src, l, strings.SplitN(msg, "\n", 2)[0]), rep)
				}
			}
		}
		if i%9973 == 11 {
			c.Sample(map[string]interface{}{"family": pr.family, "program": pr.src, "lines": pr.lines})
		}
	})
	_ = classes
	c.Set("programs_generated", len(progs))
	c.Set("programs_accepted", accepted)
	c.Set("lines_executed", linesRun)
	c.Set("runtime_errors_observed", errsSeen)
	c.Set("abstract_states", absStates)
	c.Set("abstract_transitions", absTrans)
	c.Assume = []string{
		"runtime errors are classified by message: conversion failures, strptime failures, divide by zero, shift/base out of range, unmatched capture group, missing datum for a delayed delete and number/string comparison failures are the checked conditions; everything else (unexpected ... type, panic in thread, illegal instruction, Invalid re index, Failed to pop ...) is a fault",
		"static part: abstract values are the run-time representations the VM distinguishes (bool, int64, int, float64, string, duration, metric and datum by data kind); each instruction's transfer function mirrors what vm.execute accepts; both successors of a conditional jump are explored",
	}
	c.Finish("every compiler-accepted program among: the typed mtl families of C01; statements in context (every binary operator between 14 atoms, unary forms, constant trees, every builtin with 0-3 arguments from 17 argument forms) x 3 (thorough 5) placements; the example programs over the first 60 lines of every test log; each (dynamic) run over its line alphabet twice with HardCrash set: no panic, every runtime error is one of the VM's checked conditions; and (static) every reachable (pc, abstract stack) state of its bytecode explored: no stack underflow, no operand of a representation the instruction does not accept, jump targets and table operands in range; distinct_nontrivial = distinct accepted programs")
}
