package main

// Static part of C04: explicit-state exploration of every reachable
// (program counter, abstract stack) state of the emitted bytecode.  Abstract
// values are the run-time representations the VM distinguishes; every
// instruction's transfer function mirrors what vm.execute accepts for its
// operands (typed pops, type assertions, datum accessors), so a fault reported
// here is a fault on SOME input that drives the program down that path —
// independent of the line alphabet of the dynamic part.

import (
	"fmt"
	"strings"
	"time"

	"github.com/google/mtail/internal/metrics"
	"github.com/google/mtail/internal/runtime/code"
)

// abstract value kinds (2 bytes per stack slot: kind, sub)
//
//	b. bool   i. int64   n. int   f. float64   s. string   d. time.Duration   x. other
//	Mi Mf Ms Mh  metric whose data are Int / Float / String / Buckets
//	Di Df Ds Dh  datum of that kind
type aval [2]byte

func (a aval) String() string { return strings.TrimRight(string(a[:]), ".") }

func av(k byte) aval       { return aval{k, '.'} }
func avs(k, sub byte) aval { return aval{k, sub} }

type sfault struct {
	pc    int
	instr string
	class string // stable class of the fault (no values)
	stack string
}

type staticStats struct {
	states, transitions int
}

func metricSub(t metrics.Type) byte {
	switch t {
	case metrics.Int:
		return 'i'
	case metrics.Float:
		return 'f'
	case metrics.String:
		return 's'
	case metrics.Buckets:
		return 'h'
	}
	return '?'
}

func stackStr(st []aval) string {
	var b strings.Builder
	for _, v := range st {
		b.WriteString(v.String())
		b.WriteByte(' ')
	}
	return strings.TrimSpace(b.String())
}

// verify explores the abstract state space of obj and returns the faults found.
func verify(obj *code.Object, maxStates int) ([]sfault, staticStats, bool) {
	prog := obj.Program
	type state struct {
		pc    int
		stack string
	}
	enc := func(st []aval) string {
		b := make([]byte, 0, 2*len(st))
		for _, v := range st {
			b = append(b, v[0], v[1])
		}
		return string(b)
	}
	dec := func(s string) []aval {
		st := make([]aval, len(s)/2)
		for i := range st {
			st[i] = aval{s[2*i], s[2*i+1]}
		}
		return st
	}
	seen := map[state]bool{{0, ""}: true}
	work := []state{{0, ""}}
	var faults []sfault
	reported := map[string]bool{}
	var stats staticStats
	capped := false
	for len(work) > 0 {
		cur := work[len(work)-1]
		work = work[:len(work)-1]
		stats.states++
		if stats.states > maxStates {
			capped = true
			break
		}
		if cur.pc >= len(prog) {
			continue // fell off the end: the line is done
		}
		in := prog[cur.pc]
		st := dec(cur.stack)
		fault := func(class string) {
			k := fmt.Sprintf("%d/%s", cur.pc, class)
			if !reported[k] {
				reported[k] = true
				faults = append(faults, sfault{cur.pc, in.String(), class, stackStr(st)})
			}
		}
		bad := false
		pop := func() (aval, bool) {
			if len(st) == 0 {
				if !bad {
					fault("stack underflow")
				}
				bad = true
				return aval{}, false
			}
			v := st[len(st)-1]
			st = st[:len(st)-1]
			return v, true
		}
		// typed pops exactly as thread.PopInt / PopFloat / PopString accept them
		popTyped := func(what string, ok func(v aval) bool) bool {
			v, have := pop()
			if !have {
				return false
			}
			if !ok(v) {
				if !bad {
					fault(fmt.Sprintf("%s operand of representation %s", what, v))
				}
				bad = true
				return false
			}
			return true
		}
		isInt := func(v aval) bool {
			return v[0] == 'i' || v[0] == 'n' || v[0] == 's' || (v[0] == 'D' && v[1] == 'i')
		}
		isFloat := func(v aval) bool {
			return v[0] == 'f' || v[0] == 'n' || v[0] == 's' || (v[0] == 'D' && v[1] == 'f')
		}
		isString := func(v aval) bool {
			return v[0] == 's' || v[0] == 'f' || v[0] == 'n' || v[0] == 'i' || (v[0] == 'D' && v[1] == 's')
		}
		popInt := func() bool { return popTyped("integer", isInt) }
		popFloat := func() bool { return popTyped("float", isFloat) }
		popString := func() bool { return popTyped("string", isString) }
		push := func(v aval) { st = append(st, v) }
		next := []int{cur.pc + 1}
		operandInt := func(limit int, what string) (int, bool) {
			n, ok := in.Operand.(int)
			if !ok {
				fault(what + " operand is not an int")
				bad = true
				return 0, false
			}
			if n < 0 || n >= limit {
				fault(what + " operand out of range")
				bad = true
				return 0, false
			}
			return n, true
		}
		switch in.Opcode {
		case code.Stop:
			next = nil
		case code.Match:
			operandInt(len(obj.Regexps), "regexp")
			push(av('b'))
		case code.Smatch:
			operandInt(len(obj.Regexps), "regexp")
			popString()
			push(av('b'))
		case code.Cmp:
			// compare() takes int, int64, float64 and string operands; anything else (a datum that was not
			// dereferenced, a bool, a duration) is "cannot compare" at run time on every input
			isCmp := func(v aval) bool { return v[0] == 'i' || v[0] == 'n' || v[0] == 'f' || v[0] == 's' }
			popTyped("comparison", isCmp)
			popTyped("comparison", isCmp)
			push(av('b'))
		case code.Icmp:
			popInt()
			popInt()
			push(av('b'))
		case code.Fcmp:
			popFloat()
			popFloat()
			push(av('b'))
		case code.Scmp:
			popString()
			popString()
			push(av('b'))
		case code.Jnm, code.Jm:
			v, have := pop()
			tgt, ok := in.Operand.(int)
			if !ok || tgt < 0 || tgt > len(prog) {
				fault("jump target outside the program")
				bad = true
			} else if have && (v[0] == 'b' || v[0] == 'i') {
				next = []int{cur.pc + 1, tgt}
			}
		case code.Jmp:
			tgt, ok := in.Operand.(int)
			if !ok || tgt < 0 || tgt > len(prog) {
				fault("jump target outside the program")
				bad = true
			} else {
				next = []int{tgt}
			}
		case code.Inc, code.Dec:
			if in.Operand != nil {
				popInt()
			}
			if v, have := pop(); have && !(v[0] == 'D' && v[1] == 'i') {
				fault(fmt.Sprintf("increment of %s", v))
				bad = true
			}
			push(av('i'))
		case code.Strptime:
			popString()
			if v, have := pop(); have && v[0] == 'n' {
				popInt()
			}
		case code.Timestamp:
			push(av('i'))
		case code.Settime:
			if v, have := pop(); have && v[0] != 'i' && v[0] != 'n' {
				fault(fmt.Sprintf("settime of %s", v))
				bad = true
			}
		case code.Push:
			switch in.Operand.(type) {
			case int:
				push(av('n'))
			case int64:
				push(av('i'))
			case float64:
				push(av('f'))
			case string:
				push(av('s'))
			case bool:
				push(av('b'))
			case time.Duration:
				push(av('d'))
			default:
				push(av('x'))
			}
		case code.Capref:
			if v, have := pop(); have && v[0] != 'n' {
				fault(fmt.Sprintf("capture reference through %s", v))
				bad = true
			}
			if _, ok := in.Operand.(int); !ok {
				fault("capref operand is not an int")
				bad = true
			}
			push(av('s'))
		case code.Str:
			operandInt(len(obj.Strings), "string table")
			push(av('s'))
		case code.Sset:
			popString()
			if v, have := pop(); have && !(v[0] == 'D' && v[1] == 's') {
				fault(fmt.Sprintf("string assignment to %s", v))
				bad = true
			}
		case code.Iset:
			popInt()
			if v, have := pop(); have && !(v[0] == 'D' && (v[1] == 'i' || v[1] == 'h')) {
				fault(fmt.Sprintf("integer assignment to %s", v))
				bad = true
			}
		case code.Fset:
			popFloat()
			if v, have := pop(); have && !(v[0] == 'D' && (v[1] == 'f' || v[1] == 'h')) {
				fault(fmt.Sprintf("float assignment to %s", v))
				bad = true
			}
		case code.Iadd, code.Isub, code.Imul, code.Idiv, code.Imod, code.Ipow, code.Shl, code.Shr, code.And, code.Or, code.Xor:
			popInt()
			popInt()
			push(av('i'))
		case code.Neg:
			popInt()
			push(av('i'))
		case code.Not:
			if v, have := pop(); have && v[0] != 'b' {
				fault(fmt.Sprintf("boolean not of %s", v))
				bad = true
			}
			push(av('b'))
		case code.Fadd, code.Fsub, code.Fmul, code.Fdiv, code.Fmod, code.Fpow:
			popFloat()
			popFloat()
			push(av('f'))
		case code.Mload:
			if n, ok := operandInt(len(obj.Metrics), "metric"); ok {
				push(avs('M', metricSub(obj.Metrics[n].Type)))
			}
		case code.Dload, code.Del, code.Expire:
			m, have := pop()
			if have && m[0] != 'M' {
				fault(fmt.Sprintf("%s expects a metric, found %s", in.Opcode, m))
				bad = true
			}
			n, ok := in.Operand.(int)
			if !ok || n < 0 {
				fault("key count operand is not a non-negative int")
				bad = true
			}
			for k := 0; k < n && !bad; k++ {
				popString()
			}
			if in.Opcode == code.Expire {
				if v, have := pop(); have && v[0] != 'd' {
					fault(fmt.Sprintf("expiry of representation %s", v))
					bad = true
				}
			}
			if in.Opcode == code.Dload {
				push(avs('D', m[1]))
			}
		case code.Iget, code.Fget, code.Sget:
			want := map[code.Opcode]byte{code.Iget: 'i', code.Fget: 'f', code.Sget: 's'}[in.Opcode]
			if v, have := pop(); have && !(v[0] == 'D' && v[1] == want) {
				fault(fmt.Sprintf("%s of %s", in.Opcode, v))
				bad = true
			}
			push(av(want))
		case code.Tolower:
			popString()
			push(av('s'))
		case code.Length:
			popString()
			push(av('n'))
		case code.Cat:
			popString()
			popString()
			push(av('s'))
		case code.Setmatched:
		case code.Otherwise:
			push(av('b'))
		case code.Getfilename:
			push(av('s'))
		case code.I2f:
			popInt()
			push(av('f'))
		case code.S2i:
			if in.Operand != nil {
				popInt()
			}
			popString()
			push(av('i'))
		case code.S2f:
			popString()
			push(av('f'))
		case code.I2s:
			popInt()
			push(av('s'))
		case code.F2s:
			popFloat()
			push(av('s'))
		case code.Subst:
			popString()
			popString()
			popString()
			push(av('s'))
		case code.Rsubst:
			popInt()
			popString()
			popString()
			push(av('s'))
		default:
			fault("illegal instruction")
			bad = true
		}
		if bad {
			continue // the VM ends the line at a fault
		}
		es := enc(st)
		for _, n := range next {
			stats.transitions++
			s2 := state{n, es}
			if !seen[s2] {
				seen[s2] = true
				work = append(work, s2)
			}
		}
	}
	return faults, stats, capped
}
