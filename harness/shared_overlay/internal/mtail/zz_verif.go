package mtail

import (
	"github.com/google/mtail/internal/runtime"
	"github.com/google/mtail/internal/tailer"
)

// VerifRuntime exposes the server's program loader.  Added by the /verif overlay only.
func (m *Server) VerifRuntime() *runtime.Runtime { return m.r }

// VerifTailer exposes the server's tailer.
func (m *Server) VerifTailer() *tailer.Tailer { return m.t }

// VerifCancel cancels the server's context (what a termination signal does).
func (m *Server) VerifCancel() { m.cancel() }
