package exporter

import (
	"expvar"
	"fmt"
	"io"
)

// VerifWriteSocket drives the unexported push writer with one of the real
// formatters.  Added by the /verif overlay only.
func (e *Exporter) VerifWriteSocket(w io.Writer, format string) error {
	var f formatter
	switch format {
	case "graphite":
		f = metricToGraphite
	case "statsd":
		f = metricToStatsd
	case "collectd":
		f = metricToCollectd
	default:
		return fmt.Errorf("unknown format %q", format)
	}
	return e.writeSocketMetrics(w, f, new(expvar.Int), new(expvar.Int))
}

// VerifSetPrefixes sets the per-format prefix flags.
func VerifSetPrefixes(p string) {
	*graphitePrefix = p
	*statsdPrefix = p
	*collectdPrefix = p
}
