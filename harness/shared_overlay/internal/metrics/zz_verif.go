package metrics

import "fmt"

// VerifConsistent reports "" when the slice and the index of the metric
// describe the same set of label values (same pointers, no extras), else a
// description of the difference.  Added by the /verif overlay only.
func (m *Metric) VerifConsistent() string {
	m.RLock()
	defer m.RUnlock()
	if len(m.LabelValues) != len(m.labelValuesMap) {
		return fmt.Sprintf("slice has %d entries, index has %d", len(m.LabelValues), len(m.labelValuesMap))
	}
	for i, lv := range m.LabelValues {
		if len(lv.Labels) != len(m.Keys) {
			return fmt.Sprintf("entry %d has %d labels for %d keys", i, len(lv.Labels), len(m.Keys))
		}
		got := m.labelValuesMap[buildLabelValueKey(lv.Labels)]
		if got != lv {
			return fmt.Sprintf("entry %d %q is not what the index returns for its own labels", i, lv.Labels)
		}
	}
	return ""
}

// VerifStoreLocksFree reports whether both store locks can be taken right now.
func (s *Store) VerifStoreLocksFree() bool {
	if !s.insertMu.TryLock() {
		return false
	}
	s.insertMu.Unlock()
	if !s.searchMu.TryLock() {
		return false
	}
	s.searchMu.Unlock()
	return true
}
