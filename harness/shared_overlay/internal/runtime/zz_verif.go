package runtime

import "encoding/hex"

// VerifHandles returns, for every program that has a running VM, the hex
// content hash of the source it was compiled from.  Added by the /verif overlay only.
func (r *Runtime) VerifHandles() map[string]string {
	r.handleMu.RLock()
	defer r.handleMu.RUnlock()
	out := map[string]string{}
	for name, h := range r.handles {
		out[name] = hex.EncodeToString(h.contentHash)
	}
	return out
}
