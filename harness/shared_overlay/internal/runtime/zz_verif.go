package runtime

import (
	"crypto/sha256"
	"encoding/hex"
	"fmt"
	"reflect"
	"strings"
	"unsafe"

	"github.com/google/mtail/internal/runtime/vm"
)

// The accessors below are added by the /verif overlay only.  They reach the
// loader's private state by reflection (field names looked up at run time), so
// that a refactoring of unexported fields cannot stop the harnesses from
// building; they are called by the harness thread at quiescence (no other
// thread runs under the cooperative scheduler), hence without locking.

func verifVMs(r *Runtime) (map[string]*vm.VM, error) {
	hv := reflect.ValueOf(r).Elem().FieldByName("handles")
	if !hv.IsValid() || hv.Kind() != reflect.Map {
		return nil, fmt.Errorf("Runtime has no map field named handles")
	}
	out := map[string]*vm.VM{}
	it := hv.MapRange()
	for it.Next() {
		h := it.Value()
		for h.Kind() == reflect.Ptr || h.Kind() == reflect.Interface {
			h = h.Elem()
		}
		var found *vm.VM
		if h.Kind() == reflect.Struct {
			for i := 0; i < h.NumField(); i++ {
				f := h.Field(i)
				if f.Type() == reflect.TypeOf((*vm.VM)(nil)) {
					found = (*vm.VM)(unsafe.Pointer(f.Pointer()))
				}
			}
		}
		if found == nil {
			return nil, fmt.Errorf("handle of %v holds no *vm.VM", it.Key())
		}
		out[it.Key().String()] = found
	}
	return out, nil
}

// VerifFingerprint identifies a compiled program by its regular expressions,
// string table and bytecode (the part of DumpByteCode after the metric list) and its metric descriptors.
func VerifFingerprint(v *vm.VM) string {
	d := v.DumpByteCode()
	if i := strings.Index(d, "Regexps\n"); i >= 0 {
		d = d[i:]
	}
	for _, m := range v.Metrics {
		d += fmt.Sprintf("M %s %v %v %q hidden=%v\n", m.Name, m.Kind, m.Type, m.Keys, m.Hidden)
	}
	h := sha256.Sum256([]byte(d))
	return hex.EncodeToString(h[:8])
}

// VerifHandles returns, for every program that has a running VM, the fingerprint of its code.
func (r *Runtime) VerifHandles() map[string]string {
	vms, err := verifVMs(r)
	if err != nil {
		fmt.Println("ENGINE-ERROR overlay accessor:", err)
		panic(err)
	}
	out := map[string]string{}
	for n, v := range vms {
		out[n] = VerifFingerprint(v)
	}
	return out
}

// VerifVMIDs returns the identity (pointer) of each running VM.
func (r *Runtime) VerifVMIDs() map[string]string {
	vms, err := verifVMs(r)
	if err != nil {
		fmt.Println("ENGINE-ERROR overlay accessor:", err)
		panic(err)
	}
	out := map[string]string{}
	for n, v := range vms {
		out[n] = fmt.Sprintf("%p", v)
	}
	return out
}
