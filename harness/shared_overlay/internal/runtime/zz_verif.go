package runtime

import (
	"encoding/hex"
	"fmt"
)

func fmtPtr(p interface{}) string { return fmt.Sprintf("%p", p) }

// VerifHandles returns, for every program that has a running VM, the hex
// content hash of the source it was compiled from.  Added by the /verif overlay only.
func (r *Runtime) VerifHandles() map[string]string {
	r.handleMu.RLock()
	defer r.handleMu.RUnlock()
	out := map[string]string{}
	for name, h := range r.handles {
		out[name] = hex.EncodeToString(h.contentHash)
	}
	return out
}

// VerifVMIDs returns the identity (pointer) of each running VM.
func (r *Runtime) VerifVMIDs() map[string]string {
	r.handleMu.RLock()
	defer r.handleMu.RUnlock()
	out := map[string]string{}
	for name, h := range r.handles {
		out[name] = fmtPtr(h.vm)
	}
	return out
}
