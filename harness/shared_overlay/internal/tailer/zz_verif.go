package tailer

import "sort"

// VerifStreams returns the pathnames that currently have a log stream, sorted.
// Added by the /verif overlay only.
func (t *Tailer) VerifStreams() []string {
	t.logstreamsMu.RLock()
	defer t.logstreamsMu.RUnlock()
	var out []string
	for p := range t.logstreams {
		out = append(out, p)
	}
	sort.Strings(out)
	return out
}

// VerifLogCount returns the log_count expvar.
func VerifLogCount() int64 { return logCount.Value() }
