package logstream

// VerifStopTimer stops the reader's 24-hour staleness timer (a harness that
// creates hundreds of millions of readers would otherwise keep as many timers
// alive).
func (lr *LineReader) VerifStopTimer() {
	if lr.staleTimer != nil {
		lr.staleTimer.Stop()
	}
}
