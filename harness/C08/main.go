// C08 — distinct label tuples always name distinct data.
package main

import (
	"fmt"
	"runtime"
	"strings"
	"time"

	"github.com/google/mtail/internal/metrics"
	"github.com/google/mtail/internal/metrics/datum"
	"github.com/google/mtail/internal/zverif/vlib"
)

func allStrings(alpha []byte, maxLen int) []string {
	out := []string{""}
	prev := []string{""}
	for l := 1; l <= maxLen; l++ {
		var cur []string
		for _, p := range prev {
			for _, b := range alpha {
				cur = append(cur, p+string([]byte{b}))
			}
		}
		out = append(out, cur...)
		prev = cur
	}
	return out
}

func tuples(strs []string, arity int) [][]string {
	out := [][]string{{}}
	for i := 0; i < arity; i++ {
		var n [][]string
		for _, t := range out {
			for _, s := range strs {
				n = append(n, append(append([]string{}, t...), s))
			}
		}
		out = n
	}
	return out
}

func teq(a, b []string) bool {
	if len(a) != len(b) {
		return false
	}
	for i := range a {
		if a[i] != b[i] {
			return false
		}
	}
	return true
}

func keys(n int) []string {
	k := make([]string, n)
	for i := range k {
		k[i] = fmt.Sprintf("k%d", i)
	}
	return k
}

func find(m *metrics.Metric, t []string) *metrics.LabelValue {
	var r *metrics.LabelValue
	n := 0
	for _, lv := range m.LabelValues {
		if teq(lv.Labels, t) {
			r = lv
			n++
		}
	}
	if n > 1 {
		return nil
	}
	return r
}

// gcScenario: expiry marks and garbage collection of one tuple never touch the other.
func gcScenario(a, b []string) string {
	if teq(a, b) {
		return ""
	}
	st := metrics.NewStore()
	m := metrics.NewMetric("m", "p", metrics.Gauge, metrics.Int, keys(len(a))...)
	if err := st.Add(m); err != nil {
		return "add: " + err.Error()
	}
	now := time.Now()
	da, _ := m.GetDatum(a...)
	db, _ := m.GetDatum(b...)
	datum.SetInt(da, 1, now)
	datum.SetInt(db, 2, now)
	// only B carries a (far-away) expiry
	if err := m.ExpireDatum(168*time.Hour, b...); err != nil {
		return "expire B: " + err.Error()
	}
	if err := st.Gc(); err != nil {
		return "gc: " + err.Error()
	}
	if la, lb := find(m, a), find(m, b); la == nil || lb == nil || la.Value != da || lb.Value != db || m.FindLabelValueOrNil(a) == nil || m.FindLabelValueOrNil(b) == nil {
		return "a collection removed a tuple although A has no expiry and B was updated just now with a 168h expiry"
	}
	// A becomes overdue, B is not
	if err := m.ExpireDatum(time.Hour, a...); err != nil {
		return "expire A: " + err.Error()
	}
	datum.SetInt(da, 1, now.Add(-2*time.Hour))
	if err := st.Gc(); err != nil {
		return "gc: " + err.Error()
	}
	if find(m, a) != nil || m.FindLabelValueOrNil(a) != nil {
		return "A (1h expiry, last update 2h ago) survived the collection"
	}
	if lb := find(m, b); lb == nil || lb.Value != db || datum.GetInt(db) != 2 || lb.Expiry != 168*time.Hour || m.FindLabelValueOrNil(b) != lb {
		return "collecting the overdue A touched B"
	}
	if s := m.VerifConsistent(); s != "" {
		return "slice/index inconsistent after collection: " + s
	}
	return ""
}

// pairScenario exercises create/find/write/expire/delete of A while observing B.
func pairScenario(a, b []string) string {
	m := metrics.NewMetric("m", "p", metrics.Gauge, metrics.Int, keys(len(a))...)
	ts := time.Unix(1000, 0)
	da, err := m.GetDatum(a...)
	if err != nil {
		return "create A: " + err.Error()
	}
	datum.SetInt(da, 1, ts)
	db, err := m.GetDatum(b...)
	if err != nil {
		return "create B: " + err.Error()
	}
	same := teq(a, b)
	if (da == db) != same {
		return fmt.Sprintf("A and B address the same datum = %v, tuples equal = %v", da == db, same)
	}
	if same {
		return ""
	}
	datum.SetInt(db, 2, ts)
	if x, _ := m.GetDatum(a...); x != da || datum.GetInt(x) != 1 {
		return "reading A back after writing B gives a different datum or value"
	}
	if x, _ := m.GetDatum(b...); x != db || datum.GetInt(x) != 2 {
		return "reading B back gives a different datum or value"
	}
	if lv := m.FindLabelValueOrNil(a); lv == nil || lv.Value != da {
		return "find A does not return A's datum"
	}
	if lv := m.FindLabelValueOrNil(b); lv == nil || lv.Value != db {
		return "find B does not return B's datum"
	}
	if len(m.LabelValues) != 2 {
		return fmt.Sprintf("two distinct tuples stored as %d entries", len(m.LabelValues))
	}
	if err := m.ExpireDatum(time.Hour, a...); err != nil {
		return "expire A: " + err.Error()
	}
	lb := find(m, b)
	la := find(m, a)
	if lb == nil || la == nil {
		return "entry missing after expire"
	}
	if lb.Expiry != 0 {
		return "marking expiry on A marked B"
	}
	if la.Expiry != time.Hour {
		return "marking expiry on A did not mark A"
	}
	if err := m.RemoveDatum(a...); err != nil {
		return "remove A: " + err.Error()
	}
	if find(m, a) != nil || m.FindLabelValueOrNil(a) != nil {
		return "A still present after delete"
	}
	lb = find(m, b)
	if lb == nil || lb.Value != db || datum.GetInt(db) != 2 || m.FindLabelValueOrNil(b) == nil {
		return "deleting A touched B"
	}
	if s := m.VerifConsistent(); s != "" {
		return "slice/index inconsistent: " + s
	}
	// re-create A: must be a fresh datum, B untouched
	da2, _ := m.GetDatum(a...)
	if da2 == db {
		return "re-created A aliases B"
	}
	if lv := find(m, a); lv == nil || lv.Value != da2 || m.FindLabelValueOrNil(a) != lv {
		return "re-created A is not the datum that lookup and enumeration show for A"
	}
	if datum.GetInt(da2) != 0 {
		return "re-created A carries the value of the deleted datum"
	}
	// delete A directly after looking it up, then look it up again: the tuple must name a new,
	// registered, zero-valued datum (not the deleted one)
	datum.SetInt(da2, 5, ts)
	if x, _ := m.GetDatum(a...); x != da2 {
		return "A read back as another datum"
	}
	if err := m.RemoveDatum(a...); err != nil {
		return "remove A (2): " + err.Error()
	}
	da3, _ := m.GetDatum(a...)
	if lv := find(m, a); lv == nil || lv.Value != da3 || m.FindLabelValueOrNil(a) != lv {
		return "A looked up right after its deletion names a datum that is not registered for A (the deleted one)"
	}
	if datum.GetInt(da3) != 0 {
		return "A looked up right after its deletion still carries the deleted value"
	}
	if lb = find(m, b); lb == nil || lb.Value != db || datum.GetInt(db) != 2 {
		return "delete/re-create of A touched B"
	}
	return ""
}

// bulkScenario inserts all tuples into one metric, writes ordinals, reads back, deletes one by one.
func bulkScenario(ts [][]string) (string, []string) {
	m := metrics.NewMetric("m", "p", metrics.Gauge, metrics.Int, keys(len(ts[0]))...)
	t0 := time.Unix(1000, 0)
	for i, t := range ts {
		d, err := m.GetDatum(t...)
		if err != nil {
			return err.Error(), t
		}
		datum.SetInt(d, int64(i+1), t0)
	}
	if len(m.LabelValues) != len(ts) {
		// find the collision
		for i, t := range ts {
			d, _ := m.GetDatum(t...)
			if datum.GetInt(d) != int64(i+1) {
				return fmt.Sprintf("tuple #%d reads ordinal %d: shares its datum with another tuple", i+1, datum.GetInt(d)), t
			}
		}
		return fmt.Sprintf("%d tuples stored as %d entries", len(ts), len(m.LabelValues)), nil
	}
	for i, t := range ts {
		d, _ := m.GetDatum(t...)
		if datum.GetInt(d) != int64(i+1) {
			return fmt.Sprintf("tuple #%d reads ordinal %d", i+1, datum.GetInt(d)), t
		}
	}
	for i, t := range ts {
		_ = m.RemoveDatum(t...)
		if len(m.LabelValues) != len(ts)-i-1 {
			return "delete removed a wrong number of entries", t
		}
		if i%97 == 0 {
			if s := m.VerifConsistent(); s != "" {
				return s, t
			}
		}
	}
	return "", nil
}

func main() {
	c := vlib.Init("exploration")
	alpha := []byte{'a', '-', '\\', 0xFF, ','}
	if c.Thorough() {
		alpha = append(alpha, 0x00) // a further byte a key encoding could treat specially
	}
	strs := allStrings(alpha, c.Pick(2, 3))
	// all ordered pairs, arity 1 and 2
	for arity := 1; arity <= 2; arity++ {
		src := strs
		if arity == 2 && c.Thorough() {
			src = allStrings(alpha, 2) // 43^2 = 1849 tuples -> 3.4M pairs; len-3 strings only at arity 1
		}
		tl := tuples(src, arity)
		vlib.Parallel(len(tl), runtime.NumCPU(), func(i int) {
			a := tl[i]
			for _, b := range tl {
				msg := pairScenario(a, b)
				if msg == "" {
					msg = gcScenario(a, b)
				}
				if teq(a, b) {
					c.Eval("")
				} else {
					c.Eval(fmt.Sprintf("%d|%q|%q", arity, a, b))
				}
				if msg != "" {
					x, y := a, b
					if strings.Join(x, "\x00") > strings.Join(y, "\x00") {
						x, y = y, x
					}
					c.Report(fmt.Sprintf("pair %q %q", x, y), msg, map[string]interface{}{"A": fmt.Sprintf("%q", a), "B": fmt.Sprintf("%q", b)})
				}
			}
		})
		c.Sample(map[string]interface{}{"arity": arity, "tuples": len(tl), "example_pair": []string{fmt.Sprintf("%q", tl[len(tl)/3]), fmt.Sprintf("%q", tl[2*len(tl)/3])}})
	}
	// arity 3 and 4: bulk insertion
	short := allStrings(alpha, 1)
	for arity := 3; arity <= c.Pick(3, 4); arity++ {
		src := short
		if arity == 3 {
			src = allStrings(alpha, c.Pick(1, 2))
		}
		tl := tuples(src, arity)
		msg, t := bulkScenario(tl)
		c.AddEvals(int64(len(tl)))
		c.Eval(fmt.Sprintf("bulk %d %d", arity, len(tl)))
		if msg != "" {
			c.Report(fmt.Sprintf("bulk arity=%d tuple=%q", arity, t), msg, map[string]interface{}{"arity": arity, "tuple": fmt.Sprintf("%q", t)})
		}
		c.Sample(map[string]interface{}{"arity": arity, "bulk_tuples": len(tl)})
	}
	if c.Thorough() {
		c.Set("alphabet", `a - \ 0xFF , 0x00`)
	} else {
		c.Set("alphabet", `a - \ 0xFF ,`)
	}
	c.Finish("all ordered pairs of tuples (arity 1-2) of all strings up to the length bound over {a,-,\\,0xFF,','}: create/find/write/expire/delete A while observing B, then on a fresh store a garbage collection with only B marked and one with A overdue; arity 3-4: all tuples in one metric with ordinals. distinct_nontrivial = ordered pairs of unequal tuples")
}
