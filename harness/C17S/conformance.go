package main

// Conformance of the simulated kernel (engine/vnet) with the real one: the same
// operation scripts are run against real kernel objects (unix and tcp stream
// sockets, unixgram and udp sockets, a named pipe opened as fifoOpen opens it)
// and against the simulated ones; the transcripts (data returned, error class,
// or "blocks") must be identical.  The scripts exercise every rule listed in
// the package comment of vnet.

import (
	"errors"
	"fmt"
	"io"
	"net"
	"os"
	"path/filepath"
	"strings"
	"syscall"
	"time"

	"github.com/google/mtail/internal/tailer/logstream"
	"github.com/google/mtail/internal/zverif/vnet"
	"github.com/google/mtail/internal/zverif/vrt"
)

type wc interface {
	Write([]byte) (int, error)
	Close() error
}

type kenv interface {
	name() string
	listen(network string) (net.Listener, func() wc)
	listenPacket(network string) (net.PacketConn, func(from int, data string))
	fifo() (vnet.File, func() wc)
	bg(f func() string) func() string
}

func classify(n int, data []byte, err error) string {
	switch {
	case err == nil:
		return fmt.Sprintf("data(%q)", data[:n])
	case errors.Is(err, io.EOF):
		return fmt.Sprintf("EOF n=%d exitable=%v", n, logstream.IsExitableError(err))
	case os.IsTimeout(err):
		return fmt.Sprintf("timeout n=%d exitable=%v", n, logstream.IsExitableError(err))
	case errors.Is(err, net.ErrClosed) || errors.Is(err, os.ErrClosed):
		return fmt.Sprintf("closed n=%d exitable=%v", n, logstream.IsExitableError(err))
	}
	return "other error: " + err.Error()
}

func rd(r io.Reader) string {
	b := make([]byte, 64)
	n, err := r.Read(b)
	return classify(n, b, err)
}

func errClass(err error) string {
	if err == nil {
		return "ok"
	}
	return classify(0, nil, err)
}

// the scripts
func conformanceScripts(e kenv, stream, dgram string) []string {
	var t []string
	say := func(step, out string) { t = append(t, step+" -> "+out) }
	now := func() time.Time { return time.Now() }

	// 1. stream socket: data before accept, read, EOF after client close
	{
		l, dial := e.listen(stream)
		c0 := dial()
		_, _ = c0.Write([]byte("ab\ncd"))
		s0, err := l.Accept()
		say("accept with one pending connection", errClass(err))
		say("read pending bytes", rd(s0))
		blocked := e.bg(func() string { return rd(s0) })
		say("read, nothing pending, peer open", blocked())
		_, _ = c0.Write([]byte("ef"))
		say("  ... after the peer wrote", blocked())
		_ = c0.Close()
		say("read after peer close", rd(s0))
		say("read again after EOF", rd(s0))
		say("server close", errClass(s0.Close()))
		say("read after own close", rd(s0))
		say("second close", errClass(s0.Close()))
		// accept blocks, listener close wakes it
		acc := e.bg(func() string { _, err := l.Accept(); return errClass(err) })
		say("accept, nothing pending", acc())
		say("listener close", errClass(l.Close()))
		say("  ... accept after listener close", acc())
		_, err = l.Accept()
		say("accept on closed listener", errClass(err))
	}
	// 2. stream socket: expired deadline beats pending data; deadline wakes a blocked read; two connections in dial order
	{
		l, dial := e.listen(stream)
		c0 := dial()
		c1 := dial()
		_, _ = c1.Write([]byte("one"))
		_, _ = c0.Write([]byte("zero"))
		s0, _ := l.Accept()
		s1, _ := l.Accept()
		say("first accepted connection carries", rd(s0))
		say("second accepted connection carries", rd(s1))
		_, _ = c0.Write([]byte("late"))
		say("set read deadline now", errClass(s0.SetReadDeadline(now())))
		say("read with expired deadline and pending data", rd(s0))
		say("read again", rd(s0))
		blocked := e.bg(func() string { return rd(s1) })
		say("read, nothing pending", blocked())
		say("set read deadline now on the blocked connection", errClass(s1.SetReadDeadline(now())))
		say("  ... blocked read", blocked())
		// close wakes a blocked read: (after a deadline the read returns at once, so use a fresh connection)
		c2 := dial()
		s2, _ := l.Accept()
		b2 := e.bg(func() string { return rd(s2) })
		say("read on a third connection, nothing pending", b2())
		say("close it locally", errClass(s2.Close()))
		say("  ... blocked read", b2())
		_ = c2.Close()
		_ = c1.Close()
		_ = c0.Close()
		say("deadline then peer close: read", rd(s0))
		_ = s0.Close()
		_ = s1.Close()
		// a connection dialled but never accepted, listener closed
		c3 := dial()
		_, _ = c3.Write([]byte("x"))
		say("listener close with a pending connection", errClass(l.Close()))
		_ = c3.Close()
	}
	// 3. datagram socket
	{
		p, send := e.listenPacket(dgram)
		b := make([]byte, 64)
		rf := func() string {
			n, _, err := p.ReadFrom(b)
			return classify(n, b, err)
		}
		send(0, "a\n")
		send(1, "bc")
		send(0, "")
		send(0, "d")
		say("datagram 1", rf())
		say("datagram 2", rf())
		say("zero-length datagram", rf())
		say("datagram 4", rf())
		blocked := e.bg(rf)
		say("readfrom, nothing pending", blocked())
		send(1, "late")
		say("  ... after a datagram arrived", blocked())
		send(1, "pending")
		say("set read deadline now", errClass(p.SetReadDeadline(now())))
		say("readfrom with expired deadline and a pending datagram", rf())
		say("close", errClass(p.Close()))
		say("readfrom after close", rf())
		p2, _ := e.listenPacket(dgram)
		b2 := e.bg(func() string { n, _, err := p2.ReadFrom(b); return classify(n, b, err) })
		say("readfrom on a fresh socket", b2())
		say("deadline now", errClass(p2.SetReadDeadline(now())))
		say("  ... blocked readfrom", b2())
		_ = p2.Close()
	}
	// 4. named pipe, read end opened non-blocking before any writer exists
	{
		f, openW := e.fifo()
		say("read, no writer has ever opened the pipe", rd(f))
		w0 := openW()
		blocked := e.bg(func() string { return rd(f) })
		say("read, writer open, nothing written", blocked())
		_, _ = w0.Write([]byte("ab\nc"))
		say("  ... after a write", blocked())
		w1 := openW()
		_, _ = w1.Write([]byte("X"))
		_, _ = w0.Write([]byte("Y"))
		say("read bytes of two writers", rd(f))
		_ = w0.Close()
		blocked = e.bg(func() string { return rd(f) })
		say("read, one of two writers closed", blocked())
		_ = w1.Close()
		say("  ... after the last writer closed", blocked())
		say("read again at EOF", rd(f))
		w2 := openW()
		_, _ = w2.Write([]byte("again"))
		say("read after a new writer wrote", rd(f))
		_, _ = w2.Write([]byte("more"))
		say("deadline now", errClass(f.SetReadDeadline(now())))
		say("read with expired deadline and pending data", rd(f))
		say("close", errClass(f.Close()))
		say("read after close", rd(f))
		_ = w2.Close()
		f2, openW2 := e.fifo()
		w := openW2()
		b2 := e.bg(func() string { return rd(f2) })
		say("read on a fresh pipe with a writer", b2())
		say("deadline now", errClass(f2.SetReadDeadline(now())))
		say("  ... blocked read", b2())
		_ = w.Close()
		_ = f2.Close()
	}
	return t
}

// ---------------------------------------------------------------------------
// real kernel

type realEnv struct {
	dir string
	seq int
}

func (r *realEnv) name() string { return "real" }

func (r *realEnv) path(p string) string {
	r.seq++
	return filepath.Join(r.dir, fmt.Sprintf("%s%d", p, r.seq))
}

func must(err error) {
	if err != nil {
		panic("conformance (real kernel): " + err.Error())
	}
}

func (r *realEnv) listen(network string) (net.Listener, func() wc) {
	addr := "127.0.0.1:0"
	if network == "unix" {
		addr = r.path("s")
	}
	l, err := net.Listen(network, addr)
	must(err)
	return l, func() wc {
		c, err := net.Dial(network, l.Addr().String())
		must(err)
		time.Sleep(20 * time.Millisecond)
		return settleWriter{c}
	}
}

// settleWriter gives the kernel a moment after every client operation so that the server side sees it
type settleWriter struct{ w wc }

func (s settleWriter) Write(b []byte) (int, error) {
	n, err := s.w.Write(b)
	time.Sleep(20 * time.Millisecond)
	return n, err
}

func (s settleWriter) Close() error {
	err := s.w.Close()
	time.Sleep(20 * time.Millisecond)
	return err
}

func (r *realEnv) listenPacket(network string) (net.PacketConn, func(int, string)) {
	addr := "127.0.0.1:0"
	if network == "unixgram" {
		addr = r.path("g")
	}
	p, err := net.ListenPacket(network, addr)
	must(err)
	senders := map[int]net.Conn{}
	return p, func(from int, data string) {
		c := senders[from]
		if c == nil {
			var err error
			c, err = net.Dial(network, p.LocalAddr().String())
			must(err)
			senders[from] = c
		}
		_, err := c.Write([]byte(data))
		must(err)
		time.Sleep(20 * time.Millisecond)
	}
}

func (r *realEnv) fifo() (vnet.File, func() wc) {
	p := r.path("p")
	must(syscall.Mkfifo(p, 0o600))
	f, err := os.OpenFile(p, os.O_RDONLY|syscall.O_NONBLOCK, 0o600)
	must(err)
	return f, func() wc {
		w, err := os.OpenFile(p, os.O_WRONLY, 0)
		must(err)
		return settleWriter{w}
	}
}

func (r *realEnv) bg(f func() string) func() string {
	ch := make(chan string, 1)
	go func() { ch <- f() }()
	first := true
	return func() string {
		d := 5 * time.Second
		if first {
			d = 300 * time.Millisecond
			first = false
		}
		select {
		case s := <-ch:
			return s
		case <-time.After(d):
			return "blocks"
		}
	}
}

// ---------------------------------------------------------------------------
// simulated kernel (inside a vrt execution, default schedule)

type simEnv struct{ seq int }

func (s *simEnv) name() string { return "simulated" }

func (s *simEnv) listen(network string) (net.Listener, func() wc) {
	s.seq++
	addr := fmt.Sprintf("/sim/l%d", s.seq)
	l, err := vnet.Listen(network, addr)
	must(err)
	return l, func() wc {
		c, err := vnet.Dial(addr)
		must(err)
		return c
	}
}

func (s *simEnv) listenPacket(network string) (net.PacketConn, func(int, string)) {
	s.seq++
	addr := fmt.Sprintf("/sim/p%d", s.seq)
	p, err := vnet.ListenPacket(network, addr)
	must(err)
	return p, func(from int, data string) { _ = vnet.SendTo(addr, from, []byte(data)) }
}

func (s *simEnv) fifo() (vnet.File, func() wc) {
	s.seq++
	path := fmt.Sprintf("/sim/f%d", s.seq)
	f, err := vnet.OpenFifo(path, os.O_RDONLY|syscall.O_NONBLOCK, 0o600)
	must(err)
	return f, func() wc { return vnet.OpenFifoWriter(path) }
}

func (s *simEnv) bg(f func() string) func() string {
	res := ""
	done := false
	vrt.Go(func() { res = f(); done = true })
	return func() string {
		vrt.Quiesce()
		if done {
			return res
		}
		return "blocks"
	}
}

// conformance returns "" when the transcripts agree.
func conformance(dir string) string {
	for _, pair := range [][2]string{{"unix", "unixgram"}, {"tcp", "udp"}} {
		real := conformanceScripts(&realEnv{dir: dir}, pair[0], pair[1])
		var sim []string
		r, bad := vrt.Replay(nil, 100000, func() {
			vnet.Reset()
			sim = conformanceScripts(&simEnv{}, pair[0], pair[1])
		})
		if bad != "" || r.Panic != "" {
			return "simulated run failed: " + bad + " " + r.Panic
		}
		if len(real) != len(sim) {
			return fmt.Sprintf("transcript lengths differ: %d vs %d", len(real), len(sim))
		}
		for i := range real {
			if real[i] != sim[i] {
				return fmt.Sprintf("%s/%s step %d:\n  real kernel: %s\n  simulated:   %s\n(previous steps:\n  %s)", pair[0], pair[1], i, real[i], sim[i], strings.Join(real[max(0, i-4):i], "\n  "))
			}
		}
		conformanceSteps += len(real)
	}
	return ""
}

var conformanceSteps int
