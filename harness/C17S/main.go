// C17 (schedule part) — pipes and sockets deliver all bytes, never splice
// connections, then end: stateless model checking of mtail's real socket,
// datagram and named-pipe streams under the controlled scheduler, over a
// simulated kernel (engine/vnet) whose blocking operations are scheduling
// points.  The environment (writers, cancellation, waker) is one harness
// thread executing an enumerated event order; all schedules of the stream's
// own goroutines against it are explored up to a deviation bound.
//
// Because the simulated kernel records exactly which bytes every Read
// returned, the oracle is exact: the lines delivered are the framing of the
// bytes read, per connection, each once, in order, the unterminated remainder
// once at the end — for every schedule, including cancellations that land in
// the middle of anything.
package main

import (
	"context"
	"fmt"
	"os"
	"path/filepath"
	"sort"
	"strings"
	"syscall"
	"time"

	"github.com/google/mtail/internal/tailer/logstream"
	"github.com/google/mtail/internal/zverif/gsx"
	"github.com/google/mtail/internal/zverif/shared/tlx"
	"github.com/google/mtail/internal/zverif/vlib"
	"github.com/google/mtail/internal/zverif/vnet"
	"github.com/google/mtail/internal/zverif/vrt"
	"github.com/google/mtail/internal/zverif/vrt/vsync"
)

type ev struct {
	w    int
	kind byte // 'D' dial / open the write end, 'L' complete line, 'F' fragment, 'E' empty datagram, 'C' close, 'X' cancel, 'W' wake
	data string
}

func (e ev) String() string {
	switch e.kind {
	case 'D':
		return fmt.Sprintf("w%d:connect", e.w)
	case 'E':
		return fmt.Sprintf("w%d:write-empty-datagram", e.w)
	case 'C':
		return fmt.Sprintf("w%d:close", e.w)
	case 'X':
		return "cancel"
	case 'W':
		return "wake"
	}
	return fmt.Sprintf("w%d:write(%q)", e.w, e.data)
}

func isDgram(kind string) bool { return kind == "unixgram" || kind == "udp" }
func isPipe(kind string) bool  { return kind == "fifo" || kind == "stdin" }

// scripts: all sequences of <=maxWrites writes over the alphabet; connection-oriented kinds get a leading
// connect and a trailing close.
func scripts(maxWrites int, conn bool, alphabet ...byte) [][]byte {
	var out [][]byte
	var rec func(cur []byte)
	rec = func(cur []byte) {
		if conn {
			out = append(out, append(append([]byte{'D'}, cur...), 'C'))
		} else if len(cur) > 0 {
			out = append(out, append([]byte{}, cur...))
		}
		if len(cur) == maxWrites {
			return
		}
		for _, k := range alphabet {
			rec(append(append([]byte{}, cur...), k))
		}
	}
	rec(nil)
	return out
}

func merges(ss [][]byte) [][]ev {
	var out [][]ev
	pos := make([]int, len(ss))
	var cur []ev
	var rec func()
	rec = func() {
		done := true
		for w := range ss {
			if pos[w] < len(ss[w]) {
				done = false
				k := ss[w][pos[w]]
				e := ev{w: w, kind: k}
				if k == 'L' || k == 'F' {
					e.data = fmt.Sprintf("w%dp%d", w, pos[w])
					if k == 'L' {
						e.data += "\n"
					}
				}
				pos[w]++
				cur = append(cur, e)
				rec()
				cur = cur[:len(cur)-1]
				pos[w]--
			}
		}
		if done {
			out = append(out, append([]ev{}, cur...))
		}
	}
	rec()
	return out
}

type scen struct {
	kind    string
	nw      int
	events  []ev
	settled bool
	oneShot bool // socket streams: accept one connection, end when it ends
	paused  bool // the consumer of the stream's lines takes nothing until all events before the cancellation have happened
	fifoDir string
	// observations of the last execution
	lines   []string
	closed  bool
	err     string
	early   bool // the output ended before the cancellation was issued
	clients []*vnet.Client
	target  string
}

func (s *scen) name() string {
	var es []string
	for _, e := range s.events {
		es = append(es, e.String())
	}
	mode := "free"
	if s.settled {
		mode = "settled"
	}
	if s.oneShot {
		mode += " one-shot"
	}
	if s.paused {
		mode += " slow-consumer"
	}
	return fmt.Sprintf("%s %s [%s]", s.kind, mode, strings.Join(es, " "))
}

func (s *scen) address() (target, addr string) {
	switch s.kind {
	case "fifo":
		p := filepath.Join(s.fifoDir, "pipe")
		return p, p
	case "stdin":
		return "-", "-"
	case "unix":
		return "unix:///sim/sock", "/sim/sock"
	case "unixgram":
		return "unixgram:///sim/gram", "/sim/gram"
	case "tcp":
		return "tcp://127.0.0.1:5140", "127.0.0.1:5140"
	case "udp":
		return "udp://127.0.0.1:5140", "127.0.0.1:5140"
	}
	panic(s.kind)
}

func (s *scen) body() {
	vnet.Reset()
	s.lines, s.closed, s.err, s.early = nil, false, "", false
	s.clients = make([]*vnet.Client, s.nw)
	ctx, cancel := context.WithCancel(context.Background())
	defer cancel()
	var wg vsync.WaitGroup
	wk := tlx.NewWaker()
	target, addr := s.address()
	mode := logstream.OneShotDisabled
	if s.oneShot {
		mode = logstream.OneShotEnabled
	}
	ls, err := logstream.New(ctx, &wg, wk, target, mode)
	if err != nil {
		s.err = "logstream.New: " + err.Error()
		return
	}
	gate := vrt.MkU(make(chan struct{}, 1))
	if !s.paused {
		close(vrt.Cl(gate))
	}
	vrt.Go(func() {
		out := ls.Lines()
		<-vrt.R(gate)
		for {
			l, ok := <-vrt.R(out)
			if !ok {
				s.closed = true
				return
			}
			s.lines = append(s.lines, l.Line)
		}
	})
	settle := func() {
		vrt.Quiesce()
		wk.Broadcast()
		vrt.Quiesce()
	}
	// waitEnd gives the stream wake-ups while it is otherwise idle, until its output ends (or it is stuck)
	waitEnd := func() {
		for i := 0; i < 3 && !s.closed; i++ {
			vrt.Quiesce()
			if s.closed {
				break
			}
			wk.Broadcast()
		}
		vrt.Quiesce()
	}
	fws := make([]*vnet.FifoWriter, s.nw)
	cancelled := false
	written, open := 0, 0
	naturalEnd := false // a pipe whose writers all closed after writing something ends by itself
	for _, e := range s.events {
		switch e.kind {
		case 'D':
			if isPipe(s.kind) {
				fws[e.w] = vnet.OpenFifoWriter(addr)
				open++
			} else {
				c, err := vnet.Dial(addr)
				if err != nil {
					if s.oneShot {
						continue // the listener is gone after the first connection: this writer reaches nobody
					}
					s.err = fmt.Sprintf("%s: %v", e, err)
					return
				}
				s.clients[e.w] = c
			}
		case 'L', 'F', 'E':
			switch {
			case isDgram(s.kind):
				_ = vnet.SendTo(addr, e.w, []byte(e.data))
			case isPipe(s.kind):
				_, _ = fws[e.w].Write([]byte(e.data))
			default:
				if s.clients[e.w] != nil {
					_, _ = s.clients[e.w].Write([]byte(e.data))
				}
			}
			written += len(e.data)
		case 'C':
			if isPipe(s.kind) {
				_ = fws[e.w].Close()
				open--
				if open == 0 && written > 0 {
					naturalEnd = true
				}
			} else if !isDgram(s.kind) && s.clients[e.w] != nil {
				_ = s.clients[e.w].Close()
				if s.oneShot && s.clients[e.w].C.Accepted {
					naturalEnd = true // a one-shot stream ends with its one connection
				}
			}
		case 'W':
			wk.Broadcast()
		case 'X':
			if s.paused {
				// everything that can happen without the consumer has happened; now it starts taking lines
				vrt.Quiesce()
				close(vrt.Cl(gate))
				vrt.Quiesce()
			}
			s.early = s.closed && !naturalEnd
			cancel()
			cancelled = true
		}
		if cancelled {
			break
		}
		if s.settled {
			settle()
		}
	}
	if !cancelled {
		if naturalEnd {
			waitEnd()
			if !s.closed {
				s.err = "stalled: the pipe stream did not end although all its writers closed after writing"
			}
		}
		s.early = s.closed && !naturalEnd
		cancel()
	}
	waitEnd()
	wg.Wait()
	vrt.Quiesce()
}

func frame(b []byte) []string {
	parts := strings.Split(string(b), "\n")
	out := parts[:len(parts)-1]
	if t := parts[len(parts)-1]; t != "" {
		out = append(out, t)
	}
	return out
}

func owners(l string) map[int]bool {
	o := map[int]bool{}
	for i := 0; i+1 < len(l); i++ {
		if l[i] == 'w' && l[i+1] >= '0' && l[i+1] <= '9' && (i+2 < len(l) && l[i+2] == 'p') {
			o[int(l[i+1]-'0')] = true
		}
	}
	return o
}

func eq(a, b []string) bool {
	if len(a) != len(b) {
		return false
	}
	for i := range a {
		if a[i] != b[i] {
			return false
		}
	}
	return true
}

// judge returns (class, explanation) or ("", "").
func (s *scen) judge() (string, string) {
	if strings.HasPrefix(s.err, "stalled") {
		return "stalled", s.err
	}
	if s.err != "" {
		return "harness", s.err
	}
	if !s.closed {
		return "not-closed", "the stream's goroutines finished but its output channel was never closed"
	}
	if s.early {
		return "ended-early", fmt.Sprintf("the stream's output ended before it was cancelled (and it is not a pipe whose writers all closed after writing); delivered: %q", s.lines)
	}
	uptoX := s.events
	for i, e := range s.events {
		if e.kind == 'X' {
			uptoX = s.events[:i]
			break
		}
	}
	switch {
	case isPipe(s.kind):
		_, addr := s.address()
		f := vnet.K.Fifos[addr]
		if f == nil || f.Opened != 1 {
			return "harness", "the stream did not open the pipe exactly once"
		}
		want := frame(f.Consumed)
		if !eq(s.lines, want) {
			return "framing", fmt.Sprintf("the stream read %q from the pipe, which frames to %q, but delivered %q", f.Consumed, want, s.lines)
		}
		if s.settled {
			// everything written while the stream was alive and idle must have been read
			must, open, total := 0, 0, 0
			ended := false
			for _, e := range uptoX {
				if ended {
					break
				}
				switch e.kind {
				case 'D':
					open++
				case 'L', 'F':
					total += len(e.data)
					must = total
				case 'C':
					open--
					if open == 0 && total > 0 {
						ended = true
					}
				}
			}
			if len(f.Consumed) < must {
				return "lost", fmt.Sprintf("the stream was idle after every event, yet it read only %q of the %d bytes written before it could end (%q)", f.Consumed, must, f.Written)
			}
		}
	case isDgram(s.kind):
		_, addr := s.address()
		p := vnet.K.Packets[addr]
		if p == nil {
			return "harness", "the stream did not open the datagram socket"
		}
		var all []byte
		for _, d := range p.Consumed {
			all = append(all, d.Data...)
		}
		want := frame(all)
		if !eq(s.lines, want) {
			return "framing", fmt.Sprintf("the stream received the datagrams %q, which frame to %q, but delivered %q", render(p.Consumed), want, s.lines)
		}
		if s.settled && len(p.Consumed) != len(p.Sent) {
			return "lost", fmt.Sprintf("the stream was idle after every event, yet it received only %d of the %d datagrams sent before the cancellation", len(p.Consumed), len(p.Sent))
		}
		for _, l := range s.lines {
			if len(owners(l)) > 1 {
				return "spliced", fmt.Sprintf("delivered line %q is made of datagrams of %d different senders", l, len(owners(l)))
			}
		}
	default:
		per := make([][]string, s.nw)
		for _, l := range s.lines {
			o := owners(l)
			if len(o) > 1 {
				return "spliced", fmt.Sprintf("delivered line %q is made of bytes of %d different connections; delivered: %q", l, len(o), s.lines)
			}
			if len(o) == 0 {
				return "framing", fmt.Sprintf("delivered line %q belongs to no connection; delivered: %q", l, s.lines)
			}
			for w := range o {
				per[w] = append(per[w], l)
			}
		}
		for w, cl := range s.clients {
			if cl == nil {
				if len(per[w]) > 0 {
					return "framing", fmt.Sprintf("lines %q delivered for a writer that never connected", per[w])
				}
				continue
			}
			c := cl.C
			want := frame(c.Consumed)
			if !eq(per[w], want) {
				return "framing", fmt.Sprintf("connection %d: the stream read %q, which frames to %q, but delivered %q (all delivered: %q)", w, c.Consumed, want, per[w], s.lines)
			}
			if s.oneShot && !c.Accepted {
				continue // only the first connection is served
			}
			if s.settled && (!c.Accepted || len(c.Consumed) != len(c.Written)) {
				return "lost", fmt.Sprintf("connection %d: the stream was idle after every event, yet it read only %q of %q (accepted: %v)", w, c.Consumed, c.Written, c.Accepted)
			}
		}
	}
	return "", ""
}

func render(ds []vnet.Datagram) []string {
	var out []string
	for _, d := range ds {
		out = append(out, fmt.Sprintf("s%d:%s", d.From, d.Data))
	}
	return out
}

func main() {
	c := vlib.Init("exploration")
	if os.Getenv("VRT_WORKER") == "" && c.ReplayOnly == "" {
		dir, err := os.MkdirTemp("/dev/shm", "c17s.")
		if err != nil {
			fmt.Println("ENGINE-ERROR", err)
			os.Exit(2)
		}
		bad := conformance(dir)
		os.RemoveAll(dir)
		if bad != "" {
			fmt.Println("ENGINE-ERROR the simulated kernel disagrees with the real one:", bad)
			os.Exit(2)
		}
		c.Set("kernel_conformance_steps", conformanceSteps)
	}
	// one real named pipe so that logstream.New's stat sees a pipe (its contents are never used)
	fifoDir := filepath.Join(os.TempDir(), "c17s-fifo")
	_ = os.MkdirAll(fifoDir, 0o755)
	if err := syscall.Mkfifo(filepath.Join(fifoDir, "pipe"), 0o600); err != nil && !os.IsExist(err) {
		fmt.Println("ENGINE-ERROR mkfifo:", err)
		os.Exit(2)
	}
	var scens []*scen
	add := func(kind string, ss [][]byte, allX bool, bound int) {
		_ = bound
		for _, m := range merges(ss) {
			positions := []int{len(m)}
			if allX {
				positions = nil
				for p := 0; p <= len(m); p++ {
					positions = append(positions, p)
				}
			}
			for _, p := range positions {
				evs := append(append([]ev{}, m[:p]...), ev{kind: 'X'})
				for _, settled := range []bool{true, false} {
					scens = append(scens, &scen{kind: kind, nw: len(ss), events: evs, settled: settled, fifoDir: fifoDir})
				}
			}
		}
	}
	kinds := []string{"unix", "tcp", "fifo", "stdin", "unixgram", "udp"}
	for _, k := range kinds {
		scens = append(scens, &scen{kind: k, nw: 0, events: []ev{{kind: 'X'}}, settled: true, fifoDir: fifoDir}, &scen{kind: k, nw: 0, events: []ev{{kind: 'X'}}, settled: false, fifoDir: fifoDir})
		conn := !isDgram(k)
		alpha := []byte{'L', 'F'}
		if !conn {
			alpha = []byte{'L', 'F', 'E'}
		}
		one := scripts(c.Pick(2, 3), conn, alpha...)
		for _, a := range one {
			add(k, [][]byte{a}, true, 0)
		}
		two := scripts(c.Pick(1, 2), conn, alpha...)
		for i, a := range two {
			for _, b := range two[i:] {
				add(k, [][]byte{a, b}, c.Thorough(), 0)
			}
		}
	}
	// one-shot socket streams: one writer with every script, two writers with short ones
	oneShotKinds := []string{"unix"}
	if c.Thorough() {
		oneShotKinds = append(oneShotKinds, "tcp")
	}
	for _, k := range oneShotKinds {
		n0 := len(scens)
		for _, a := range scripts(c.Pick(1, 3), true, 'L', 'F') {
			add(k, [][]byte{a}, true, 0)
		}
		two := scripts(1, true, 'L', 'F')
		for i, a := range two {
			for _, b := range two[i:] {
				add(k, [][]byte{a, b}, c.Thorough(), 0)
			}
		}
		for _, sc := range scens[n0:] {
			sc.oneShot = true
		}
		scens = append(scens, &scen{kind: k, events: []ev{{kind: 'X'}}, settled: true, oneShot: true, fifoDir: fifoDir})
	}
	// a slow consumer: nothing is taken from the stream's output until all events have happened
	{
		var extra []*scen
		for _, sc := range scens {
			// (unix and tcp sockets are one implementation; quick runs the variant on unix sockets only)
			if (sc.kind == "unix" || (sc.kind == "tcp" && c.Thorough())) && !sc.settled && !sc.oneShot && sc.nw >= 1 && sc.events[len(sc.events)-1].kind == 'X' {
				cp := *sc
				cp.paused = true
				extra = append(extra, &cp)
			}
		}
		scens = append(scens, extra...)
	}
	bound1, bound2 := c.Pick(3, 4), c.Pick(1, 3)
	// smallest scenarios first, so that a run cut short by its deadline has covered every kind of stream
	sort.SliceStable(scens, func(i, j int) bool {
		if scens[i].nw != scens[j].nw {
			return scens[i].nw < scens[j].nw
		}
		return len(scens[i].events) < len(scens[j].events)
	})
	seenScen := map[string]bool{}
	for _, s := range scens {
		s := s
		if seenScen[s.name()] {
			continue // the same event order reached from two scripts
		}
		seenScen[s.name()] = true
		b := bound2
		if s.nw <= 1 {
			b = bound1
		}
		if s.paused && b > c.Pick(1, 2) {
			b = c.Pick(1, 2)
		}
		gsx.Explore(c, gsx.Config{
			Scenario: s.name(), Bound: b, MaxSteps: 5000,
			Deadline:   c.Deadline(6*time.Minute, 40*time.Minute),
			Body:       s.body,
			ByScenario: true,
			Check: func(e vrt.Exec) (key, what, outcome string) {
				cls, why := s.judge()
				outcome = strings.Join(s.lines, "|")
				if cls == "" {
					return "", "", outcome
				}
				key = cls + " " + s.name()
				if cls == "spliced" && isDgram(s.kind) {
					key = "spliced-datagram-senders " + s.kind
				}
				return key, s.name() + "\n" + why + "\nsimulated kernel log: " + strings.Join(vnet.K.Log, "; "), outcome
			},
		})
	}
	c.Set("event_orders", len(seenScen))
	c.Assume = []string{
		"the kernel is simulated (engine/vnet); its rules are compared with real kernel objects by a conformance run before the exploration",
		"scheduling points: every synchronisation operation of internal/tailer/logstream and every simulated kernel operation; code between two points runs atomically",
		"read deadlines are only ever 'now' (what mtail sets); wake-ups are issued while the stream is otherwise idle",
	}
	gsx.Finish(c, "stateless DFS over schedules of the stream's goroutines {accept loop, closer, connection handlers, deadline setters, reader} against one environment thread executing an enumerated event order (connect, write line / fragment / empty datagram, close, cancel at every position), settled and free-running, socket streams also in one-shot mode and with a consumer that takes nothing until all events have happened, with at most `bound` deviations from the default schedule; oracle: delivered lines = framing of the bytes each Read returned, per connection, plus completeness when the stream was idle after every event, closure, termination, no crash; distinct_nontrivial = distinct final observations plus distinct schedules with >=1 deviation")
}
