// C18 (schedule part) — every matching log path is tailed, once: stateless
// model checking of the Tailer's concurrent pattern pollers.  The Tailer runs
// one goroutine per glob pattern; when several patterns match the same new
// file their pollers race to open it.  Every schedule of the pollers, the
// stream starters and the streams, up to a deviation bound, on a real
// directory: afterwards each file has exactly one stream, log_count equals the
// number of files, and every line is delivered exactly once.
package main

import (
	"fmt"
	"os"
	"path/filepath"
	"sort"
	"strings"
	"time"

	"github.com/google/mtail/internal/tailer"
	"github.com/google/mtail/internal/zverif/gsx"
	"github.com/google/mtail/internal/zverif/shared/tlx"
	"github.com/google/mtail/internal/zverif/vlib"
	"github.com/google/mtail/internal/zverif/vrt"
)

type scen struct {
	name     string
	patterns []string // relative to the scenario directory
	pre      []string // files that exist (with one line) before the tailer starts
	fresh    []string // files created, with one line each, before the poll that is explored
	polls    int      // pattern polls issued back to back (a second poll may overlap the first)
	dir      string
	// observations
	lines   []tlx.Line
	streams []string
	logs    int64
	err     string
}

func (s *scen) body() {
	s.lines, s.streams, s.logs, s.err = nil, nil, 0, ""
	_ = os.RemoveAll(s.dir)
	if err := os.MkdirAll(filepath.Join(s.dir, "d"), 0o755); err != nil {
		s.err = err.Error()
		return
	}
	write := func(f string) {
		_ = os.WriteFile(filepath.Join(s.dir, f), []byte("line of "+f+"\n"), 0o644)
	}
	for _, f := range s.pre {
		write(f)
	}
	var pats []string
	for _, p := range s.patterns {
		pats = append(pats, s.dir+"/"+p) // not cleaned: a differently spelled pattern stays differently spelled
	}
	lc0 := tailer.VerifLogCount()
	t := tlx.Start(pats)
	if t.Err != nil {
		s.err = "tailer.New: " + t.Err.Error()
		return
	}
	for _, f := range s.fresh {
		write(f)
	}
	// the explored part: the pattern pollers are woken (all at once) and race
	for i := 0; i < s.polls; i++ {
		t.Pattern.Broadcast()
	}
	vrt.Quiesce()
	t.Streams.Broadcast()
	vrt.Quiesce()
	// a line appended afterwards must arrive once
	for _, f := range append(append([]string{}, s.pre...), s.fresh...) {
		fh, err := os.OpenFile(filepath.Join(s.dir, f), os.O_APPEND|os.O_WRONLY, 0)
		if err == nil {
			_, _ = fh.WriteString("later line of " + f + "\n")
			fh.Close()
		}
	}
	t.Streams.Broadcast()
	vrt.Quiesce()
	s.streams = t.T.VerifStreams()
	s.logs = tailer.VerifLogCount() - lc0
	t.Stop()
	s.lines = t.Lines
}

func (s *scen) judge() (string, string) {
	if s.err != "" {
		return "harness", s.err
	}
	var want []string
	for _, f := range append(append([]string{}, s.pre...), s.fresh...) {
		want = append(want, filepath.Join(s.dir, f))
	}
	sort.Strings(want)
	got := append([]string{}, s.streams...)
	sort.Strings(got)
	if strings.Join(got, "|") != strings.Join(want, "|") {
		return "tailed-set", fmt.Sprintf("streams exist for %v, want exactly one for each of %v", rel(s.dir, got), rel(s.dir, want))
	}
	if s.logs != int64(len(want)) {
		return "log-count", fmt.Sprintf("log_count moved by %d for %d files: a path was opened by more than one poller", s.logs, len(want))
	}
	seen := map[string]int{}
	for _, l := range s.lines {
		seen[l.File+"\x00"+l.Text]++
	}
	for k, n := range seen {
		if n > 1 {
			return "delivery", fmt.Sprintf("%q was delivered %d times; all lines: %v", strings.ReplaceAll(k, "\x00", ": "), n, s.lines)
		}
	}
	// whether the contents a file had before its stream existed are read is C16's subject; the line appended
	// afterwards must arrive exactly once
	for _, f := range want {
		r := strings.TrimPrefix(f, s.dir+"/")
		if n := seen[f+"\x00later line of "+r]; n != 1 {
			return "delivery", fmt.Sprintf("the line appended to %s after the poll was delivered %d times, want once; all lines: %v", r, n, s.lines)
		}
	}
	return "", ""
}

func contains(l []string, x string) bool {
	for _, y := range l {
		if x == y {
			return true
		}
	}
	return false
}

func rel(dir string, l []string) []string {
	out := make([]string, len(l))
	for i, x := range l {
		out[i] = strings.TrimPrefix(x, dir+"/")
	}
	return out
}

func main() {
	c := vlib.Init("model_checking")
	base := os.Getenv("VERIF_SCRATCH")
	if base == "" {
		base = os.TempDir()
	}
	// below the run's scratch directory, which the dispatcher removes
	root := filepath.Join(base, "c18s", "w"+strings.ReplaceAll(os.Getenv("VRT_WORKER"), "/", "_"))
	scens := []*scen{
		{name: "two-overlapping-globs/one-new-file", patterns: []string{"d/*.log", "d/a*"}, fresh: []string{"d/a.log"}, polls: 1},
		{name: "two-overlapping-globs/two-new-files", patterns: []string{"d/*.log", "d/a*"}, fresh: []string{"d/a.log", "d/ab.log"}, polls: 1},
		{name: "glob-and-literal-path/one-new-file", patterns: []string{"d/*.log", "d/a.log"}, fresh: []string{"d/a.log"}, polls: 1},
		{name: "same-glob-spelled-twice/one-new-file", patterns: []string{"d/*.log", "d/./*.log"}, fresh: []string{"d/a.log"}, polls: 1},
		{name: "glob-and-unclean-literal-path/one-new-file", patterns: []string{"d/*.log", "d/./a.log"}, fresh: []string{"d/a.log"}, polls: 1},
		{name: "glob-and-literal-path-with-double-slash/one-new-file", patterns: []string{"d/*.log", "d//a.log"}, fresh: []string{"d/a.log"}, polls: 1},
		{name: "three-overlapping-globs/one-new-file", patterns: []string{"d/*.log", "d/a*", "d/?.log"}, fresh: []string{"d/a.log"}, polls: 1},
		{name: "two-overlapping-globs/one-old-one-new", patterns: []string{"d/*.log", "d/a*"}, pre: []string{"d/ab.log"}, fresh: []string{"d/a.log"}, polls: 1},
		{name: "one-glob/polled-twice", patterns: []string{"d/*.log"}, fresh: []string{"d/a.log"}, polls: 2},
		{name: "two-overlapping-globs/polled-twice", patterns: []string{"d/*.log", "d/a*"}, fresh: []string{"d/a.log"}, polls: 2},
	}
	for i, s := range scens {
		s := s
		s.dir = filepath.Join(root, fmt.Sprintf("s%d", i))
		bound := c.Pick(2, 3)
		if len(s.patterns) > 2 || len(s.fresh) > 1 {
			bound = c.Pick(1, 2)
		}
		gsx.Explore(c, gsx.Config{
			Scenario: s.name, Bound: bound, MaxSteps: 50000, ByScenario: true,
			Deadline: c.Deadline(6*time.Minute, 40*time.Minute),
			Body:     s.body,
			Check: func(e vrt.Exec) (string, string, string) {
				cls, why := s.judge()
				outcome := fmt.Sprintf("streams=%d logs=%d lines=%d", len(s.streams), s.logs, len(s.lines))
				if cls == "" {
					return "", "", outcome
				}
				return cls + " " + s.name, s.name + " patterns " + strings.Join(s.patterns, ", ") + "\n" + why, outcome
			},
		})
	}
	c.Set("scenarios", len(scens))
	c.Assume = []string{
		"scheduling points are the synchronisation operations of internal/tailer and internal/tailer/logstream; file-system calls are atomic steps",
		"the pattern pollers are woken by one broadcast (as the shared poll ticker does); streams are woken once the pollers are quiescent",
	}
	gsx.Finish(c, "stateless DFS over schedules of the Tailer's pattern pollers, stream starters and file streams with at most `bound` deviations, for overlapping pattern sets (two and three globs, glob plus literal path, a literal path spelled with /./ or //, one glob spelled twice) over one or two new files, polled once or twice back to back, on a real directory; afterwards exactly one stream per file, log_count = number of files, no line delivered twice and the line appended to each file after the poll delivered once; distinct_nontrivial = distinct final observations plus schedules with >=1 deviation")
}
