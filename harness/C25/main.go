// C25 — self-monitoring counters are exact.
// Explicit-state exploration of histories {append line / fragment to one of two
// logs, edit / break / remove a program and reload, poll} on the whole
// pipeline wired by mtail.New in tailing mode (harness wakers, controlled
// scheduler, quiescence after every step); after every step the expvar
// counters must equal the counts of the events the history contains.
package main

import (
	"context"
	"expvar"
	"fmt"
	"os"
	"path/filepath"
	"regexp"
	"sort"
	"strings"
	"time"

	"github.com/google/mtail/internal/metrics"
	"github.com/google/mtail/internal/mtail"
	"github.com/google/mtail/internal/runtime"
	"github.com/google/mtail/internal/runtime/vm"
	"github.com/google/mtail/internal/tailer"
	"github.com/google/mtail/internal/zverif/hsx"
	"github.com/google/mtail/internal/zverif/shared/rtx"
	"github.com/google/mtail/internal/zverif/shared/tlx"
	"github.com/google/mtail/internal/zverif/vlib"
	"github.com/google/mtail/internal/zverif/vrt"
)

var versions = map[string]string{
	"ok":     "counter n\n/^(\\w+)$/ {\n  n++\n}\n",
	"errs":   "counter n\n/^(\\w+)$/ {\n  n += int($1)\n}\n",
	"broken": "counter n\n/^(\\w+)$/ {\n",
	"clash":  "counter n\ncounter other\n/^(\\w+)$/ {\n  n++\n  other++\n}\n",
}

const qProg = "gauge other\n/^zzz$/ {\n  other = 1\n}\n"

type op struct {
	kind string // line, frag, prog, rmprog, poll
	log  int
	text string
	ver  string
}

func (o op) String() string {
	switch o.kind {
	case "line":
		return fmt.Sprintf("append(log%d,%q)", o.log, o.text+"\n")
	case "frag":
		return fmt.Sprintf("append(log%d,%q)", o.log, o.text)
	case "trunc":
		return fmt.Sprintf("truncate(log%d)", o.log)
	case "prog":
		return "write(p.mtail," + o.ver + ")+reload"
	case "rmprog":
		return "remove(p.mtail)+reload"
	}
	return "poll"
}

func mapVal(name, key string) int64 {
	v := expvar.Get(name)
	if v == nil {
		return 0
	}
	m, ok := v.(*expvar.Map)
	if !ok {
		return 0
	}
	return rtx.MapVal(m, key)
}

type counts struct {
	lines                           int64
	logLines                        [2]int64
	rtErr, loads, unloads, loadErrs map[string]int64
}

func newCounts() counts {
	return counts{rtErr: map[string]int64{}, loads: map[string]int64{}, unloads: map[string]int64{}, loadErrs: map[string]int64{}}
}

var wordRe = regexp.MustCompile(`^\w+$`)

func isInt(s string) bool {
	var x int64
	_, err := fmt.Sscan(s, &x)
	return err == nil && fmt.Sprint(x) == s
}

func mkConfig(c *vlib.Ctx, cname string, depth int, withQ bool) hsx.Config {
	ops := []op{
		{kind: "line", log: 0, text: "1"}, {kind: "line", log: 0, text: "e"}, {kind: "line", log: 1, text: "1"}, {kind: "line", log: 1, text: "e"},
		{kind: "frag", log: 0, text: "F"}, {kind: "frag", log: 0, text: "\r"},
		{kind: "trunc", log: 0},
		{kind: "prog", ver: "ok"}, {kind: "prog", ver: "errs"}, {kind: "prog", ver: "broken"}, {kind: "prog", ver: "clash"}, {kind: "prog", ver: "dangling"},
		{kind: "rmprog"}, {kind: "poll"},
	}
	names := make([]string, len(ops))
	for i, o := range ops {
		names[i] = o.String()
	}
	return hsx.Config{
		Name: cname, Ops: names, MaxDepth: depth, Deadline: c.Deadline(7*time.Minute, 45*time.Minute),
		Run: func(hist []int) hsx.Result {
			dir, err := os.MkdirTemp("/dev/shm", "c25.")
			if err != nil {
				return hsx.Result{Violation: "harness: " + err.Error(), VKey: "harness-tempdir"}
			}
			defer os.RemoveAll(dir)
			_ = os.Mkdir(filepath.Join(dir, "progs"), 0o755)
			_ = os.Mkdir(filepath.Join(dir, "logs"), 0o755)
			logs := [2]string{filepath.Join(dir, "logs", "a.log"), filepath.Join(dir, "logs", "b.log")}
			for _, l := range logs {
				_ = os.WriteFile(l, nil, 0o644)
			}
			if withQ {
				_ = os.WriteFile(filepath.Join(dir, "progs", "q.mtail"), []byte(qProg), 0o644)
			}
			pfile := filepath.Join(dir, "progs", "p.mtail")
			var hs []string
			for _, i := range hist {
				hs = append(hs, names[i])
			}
			hstr := strings.Join(hs, " ; ")
			var res hsx.Result
			applic := true
			viol := func(cls, what string) {
				if res.Violation == "" {
					res = hsx.Result{Violation: "history (pipeline observes every step): " + hstr + "\n" + what, VKey: cls + ": " + hstr}
				}
			}
			er := hsx.Exec(800000, func() {
				// model
				want := newCounts()
				pending := [2]string{}
				fileVer := "" // contents of p.mtail ("" = no file)
				running := "" // version p.mtail runs
				base := newCounts()
				base.lines = runtime.LineCount.Value()
				for _, p := range []string{"p.mtail", "q.mtail"} {
					base.rtErr[p] = rtx.MapVal(vm.ProgRuntimeErrors, p)
					base.loads[p] = rtx.MapVal(runtime.ProgLoads, p)
					base.unloads[p] = rtx.MapVal(runtime.ProgUnloads, p)
					base.loadErrs[p] = rtx.MapVal(runtime.ProgLoadErrors, p)
				}
				lc0 := tailer.VerifLogCount()
				store := metrics.NewStore()
				w1, w2 := tlx.NewWaker(), tlx.NewWaker()
				m, err := mtail.New(context.Background(), store,
					mtail.ProgramPath(filepath.Join(dir, "progs")),
					mtail.LogPathPatterns(filepath.Join(dir, "logs", "*.log")),
					mtail.LogPatternPollWaker(w1), mtail.LogstreamPollWaker(w2))
				if err != nil {
					viol("new", err.Error())
					return
				}
				if withQ {
					want.loads["q.mtail"]++
				}
				vrt.Quiesce()
				observe := func() {
					w2.Broadcast()
					vrt.Quiesce()
					w1.Broadcast()
					vrt.Quiesce()
					w2.Broadcast()
					vrt.Quiesce()
				}
				deliver := func(log int, text string) {
					want.lines++
					want.logLines[log]++
					if running == "errs" && wordRe.MatchString(text) && !isInt(text) {
						want.rtErr["p.mtail"]++
					}
				}
				reload := func() {
					if err := m.VerifRuntime().LoadAllPrograms(); err != nil {
						viol("loadall", err.Error())
					}
					vrt.Quiesce()
					switch {
					case fileVer == "":
						if running != "" {
							running = ""
							want.unloads["p.mtail"]++
						}
					case fileVer == running:
					case fileVer == "broken", fileVer == "dangling":
						want.loadErrs["p.mtail"]++
					case fileVer == "clash" && withQ:
						want.loadErrs["p.mtail"]++
					default:
						running = fileVer
						want.loads["p.mtail"]++
					}
				}
				for i, oi := range hist {
					o := ops[oi]
					switch o.kind {
					case "line", "frag":
						f, err := os.OpenFile(logs[o.log], os.O_APPEND|os.O_WRONLY, 0o644)
						if err != nil {
							viol("harness-fs", err.Error())
							return
						}
						if o.kind == "line" {
							_, _ = f.WriteString(o.text + "\n")
							deliver(o.log, pending[o.log]+o.text)
							pending[o.log] = ""
						} else {
							_, _ = f.WriteString(o.text)
							pending[o.log] += o.text
						}
						f.Close()
					case "trunc":
						// the generation ends: a pending fragment is delivered as its own line
						if err := os.Truncate(logs[o.log], 0); err != nil {
							viol("harness-fs", err.Error())
							return
						}
						if pending[o.log] != "" {
							deliver(o.log, pending[o.log])
							pending[o.log] = ""
						}
					case "prog":
						if fileVer == o.ver {
							applic = false
							return
						}
						_ = os.Remove(pfile) // never write through a symbolic link left by "dangling"
						if o.ver == "dangling" {
							// listed by the directory scan but cannot be opened: a failed load attempt
							_ = os.Symlink(filepath.Join(dir, "gone.mtail"), pfile)
						} else {
							_ = os.WriteFile(pfile, []byte(versions[o.ver]), 0o644)
						}
						fileVer = o.ver
						reload()
					case "rmprog":
						if fileVer == "" {
							applic = false
							return
						}
						_ = os.Remove(pfile)
						fileVer = ""
						reload()
					}
					observe()
					if i < len(hist)-1 || res.Violation != "" {
						continue
					}
					check := func(name string, got, wantv int64) {
						if got != wantv {
							viol("counter "+name, fmt.Sprintf("%s moved by %d; the history contains %d such events", name, got, wantv))
						}
					}
					check("lines_total", runtime.LineCount.Value()-base.lines, want.lines)
					for k, l := range logs {
						check(fmt.Sprintf("log_lines_total[log%d]", k), mapVal("log_lines_total", l), want.logLines[k])
					}
					check("log_count", tailer.VerifLogCount()-lc0, 2)
					for _, p := range []string{"p.mtail", "q.mtail"} {
						check("prog_runtime_errors_total["+p+"]", rtx.MapVal(vm.ProgRuntimeErrors, p)-base.rtErr[p], want.rtErr[p])
						check("prog_loads_total["+p+"]", rtx.MapVal(runtime.ProgLoads, p)-base.loads[p], want.loads[p])
						check("prog_unloads_total["+p+"]", rtx.MapVal(runtime.ProgUnloads, p)-base.unloads[p], want.unloads[p])
						check("prog_load_errors_total["+p+"]", rtx.MapVal(runtime.ProgLoadErrors, p)-base.loadErrs[p], want.loadErrs[p])
					}
				}
				if res.Violation == "" {
					var ks []string
					for k, v := range want.rtErr {
						ks = append(ks, fmt.Sprintf("rt[%s]=%d", k, v))
					}
					for k, v := range want.loadErrs {
						ks = append(ks, fmt.Sprintf("le[%s]=%d", k, v))
					}
					for k, v := range want.loads {
						ks = append(ks, fmt.Sprintf("ld[%s]=%d", k, v))
					}
					sort.Strings(ks)
					res.Key = fmt.Sprintf("file=%s running=%s pending=%q lines=%d/%v %v", fileVer, running, pending, want.lines, want.logLines, ks)
				}
				m.VerifCancel()
				vrt.Quiesce()
				w2.Broadcast()
				vrt.Quiesce()
				// stopping ends every generation: pending fragments are delivered, and counted, once
				if res.Violation == "" {
					for k := range pending {
						if pending[k] != "" {
							deliver(k, pending[k])
							pending[k] = ""
						}
					}
					check := func(name string, got, wantv int64) {
						if got != wantv {
							viol("counter-after-stop "+name, fmt.Sprintf("after stopping the pipeline %s has moved by %d; the history contains %d such events (pending fragments are delivered when tailing stops)", name, got, wantv))
						}
					}
					check("lines_total", runtime.LineCount.Value()-base.lines, want.lines)
					for k, l := range logs {
						check(fmt.Sprintf("log_lines_total[log%d]", k), mapVal("log_lines_total", l), want.logLines[k])
					}
				}
			})
			if !applic {
				return hsx.Result{}
			}
			if a := hsx.Anomaly(er); a != "" && res.Violation == "" {
				viol("anomaly "+strings.SplitN(a, "\n", 2)[0], a)
			}
			return res
		},
	}
}

func main() {
	hsx.QuietGlog()
	vrt.ForeignLocksDirect = true
	c := vlib.Init("model_checking")
	cfgs := []hsx.Config{
		mkConfig(c, fmt.Sprintf("with-second-program/depth%d", c.Pick(4, 5)), c.Pick(4, 5), true),
		mkConfig(c, fmt.Sprintf("single-program/depth%d", c.Pick(4, 5)), c.Pick(4, 5), false),
	}
	c.Assume = []string{
		"whole pipeline as wired by mtail.New in tailing mode; harness wakers replace the timers; a reload request is LoadAllPrograms called directly (as the SIGHUP handler does); default schedule with quiescence after every step",
		"counters are process-global expvars and are read as deltas from the start of each execution",
		"the prometheus registry's DescribeByCollect goroutine takes the free store lock directly (see C19)",
	}
	hsx.Explore(c, "explicit-state exploration of histories over {append a line (integer / non-integer text) to log a or b, append an unterminated fragment (text, or a lone carriage return), truncate a log, write p.mtail as {ok, raises a runtime error on non-integer lines, does not compile, a dangling symbolic link (listed but cannot be opened), cannot register because q.mtail holds one of its names with another kind} and reload, remove p.mtail and reload, poll} on the whole pipeline (tailer, file streams, runtime, VMs); after every step lines_total, log_lines_total per log, log_count, prog_runtime_errors_total, prog_loads_total, prog_unloads_total and prog_load_errors_total per program moved by exactly the number of such events in the history; after the pipeline is stopped the line counters have also counted the pending fragments, once", cfgs...)
}
