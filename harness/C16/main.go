// C16 — a tailed file delivers every appended line exactly once across rotation.
// Explicit-state BFS over histories of file operations on a real file (tmpfs)
// tailed by the real Tailer/fileStream under the controlled scheduler; the
// tailer observes every step (wakers + quiescence) before the next one.
package main

import (
	"fmt"
	"os"
	"path/filepath"
	"strings"
	"time"

	"github.com/google/mtail/internal/zverif/hsx"
	"github.com/google/mtail/internal/zverif/shared/tlx"
	"github.com/google/mtail/internal/zverif/vlib"
)

var opNames = []string{"append-line", "append-fragment", "append-crlf-line", "truncate", "rename+create", "copy+truncate", "delete", "recreate", "poll"}

type model struct {
	exists  bool
	pending string
	want    []string
	gen     int
}

func (m *model) endGeneration() {
	if m.pending != "" {
		m.want = append(m.want, m.pending)
		m.pending = ""
	}
	m.gen++
}

// apply returns false if the op is not applicable in this state.
func (m *model) apply(op int, i int) (string, bool) {
	switch opNames[op] {
	case "append-line":
		if !m.exists {
			return "", false
		}
		p := fmt.Sprintf("L%d", i)
		m.want = append(m.want, m.pending+p)
		m.pending = ""
		return p + "\n", true
	case "append-fragment":
		if !m.exists {
			return "", false
		}
		p := fmt.Sprintf("F%d", i)
		m.pending += p
		return p, true
	case "append-crlf-line":
		if !m.exists {
			return "", false
		}
		p := fmt.Sprintf("C%d", i)
		m.want = append(m.want, m.pending+p)
		m.pending = ""
		return p + "\r\n", true
	case "truncate", "copy+truncate":
		if !m.exists {
			return "", false
		}
		m.endGeneration()
		return "", true
	case "rename+create":
		if !m.exists {
			return "", false
		}
		m.endGeneration()
		return "", true
	case "delete":
		if !m.exists {
			return "", false
		}
		m.endGeneration()
		m.exists = false
		return "", true
	case "recreate":
		if m.exists {
			return "", false
		}
		m.exists = true
		return "", true
	case "poll":
		return "", true
	}
	return "", false
}

func realApply(path string, op int, payload string, step int) error {
	switch opNames[op] {
	case "append-line", "append-fragment", "append-crlf-line":
		f, err := os.OpenFile(path, os.O_APPEND|os.O_WRONLY, 0o644)
		if err != nil {
			return err
		}
		defer f.Close()
		_, err = f.WriteString(payload)
		return err
	case "truncate":
		return os.Truncate(path, 0)
	case "copy+truncate":
		b, err := os.ReadFile(path)
		if err != nil {
			return err
		}
		if err := os.WriteFile(fmt.Sprintf("%s.%d", path, step), b, 0o644); err != nil {
			return err
		}
		return os.Truncate(path, 0)
	case "rename+create":
		if err := os.Rename(path, fmt.Sprintf("%s.%d", path, step)); err != nil {
			return err
		}
		return os.WriteFile(path, nil, 0o644)
	case "delete":
		return os.Remove(path)
	case "recreate":
		return os.WriteFile(path, nil, 0o644)
	}
	return nil
}

func mkConfig(c *vlib.Ctx, cname string, depth int, pre string) hsx.Config {
	return hsx.Config{
		Name: cname, Ops: opNames, MaxDepth: depth, Deadline: c.Deadline(6*time.Minute, 40*time.Minute),
		Run: func(hist []int) hsx.Result {
			dir, err := os.MkdirTemp("/dev/shm", "c16.")
			if err != nil {
				return hsx.Result{Violation: "harness: " + err.Error(), VKey: "harness-tempdir"}
			}
			defer os.RemoveAll(dir)
			path := filepath.Join(dir, "log")
			if err := os.WriteFile(path, []byte(pre), 0o644); err != nil {
				return hsx.Result{Violation: "harness: " + err.Error(), VKey: "harness-fs"}
			}
			mo := &model{exists: true}
			var hs []string
			for _, o := range hist {
				hs = append(hs, opNames[o])
			}
			hstr := strings.Join(hs, " ; ")
			applic := true
			var res hsx.Result
			viol := func(cls, what string) {
				if res.Violation == "" {
					res = hsx.Result{Violation: "history (file pre-existing with " + fmt.Sprintf("%q", pre) + ", tailer observes every step): " + hstr + "\n" + what, VKey: cls + ": " + hstr}
				}
			}
			var midKey string
			er := hsx.Exec(400000, func() {
				t := tlx.Start([]string{path})
				if t.Err != nil {
					viol("start", t.Err.Error())
					return
				}
				for i, o := range hist {
					payload, ok := mo.apply(o, i+1)
					if !ok {
						applic = false
						break
					}
					if err := realApply(path, o, payload, i+1); err != nil {
						viol("harness-fs", err.Error())
						break
					}
					t.Observe()
				}
				if applic && res.Violation == "" {
					// before stopping: everything but a pending fragment must already be there
					got := texts(t.Lines)
					if strings.Join(got, "\x00") != strings.Join(mo.want, "\x00") {
						viol("delivered-before-stop", fmt.Sprintf("lines delivered after the last step: %q\nlines appended so far (a fragment not yet terminated is still pending: %q): %q", got, mo.pending, mo.want))
					}
					midKey = fmt.Sprintf("exists=%v pending=%q streams=%d", mo.exists, mo.pending != "", len(t.T.VerifStreams()))
				}
				t.Stop()
				if applic && res.Violation == "" {
					mo.endGeneration()
					got := texts(t.Lines)
					if strings.Join(got, "\x00") != strings.Join(mo.want, "\x00") {
						viol("delivered-after-stop", fmt.Sprintf("lines delivered once tailing was stopped: %q\nwant (each appended line once, a fragment left when its generation ended once on its own): %q", got, mo.want))
					}
					if !t.Closed {
						viol("not-closed", "the tailer did not close its output after cancellation")
					}
				}
			})
			if !applic {
				return hsx.Result{}
			}
			if a := hsx.Anomaly(er); a != "" && res.Violation == "" {
				viol("anomaly "+strings.SplitN(a, "\n", 2)[0], a)
			}
			if res.Violation == "" {
				// no merging: the line reader's buffer lives in a goroutine's local variables, out of reach of
				// any state dump, so every history is its own state (all sequences up to the depth bound)
				res.Key = midKey + " " + hstr
			}
			return res
		},
	}
}

func texts(ls []tlx.Line) []string {
	var out []string
	for _, l := range ls {
		out = append(out, l.Text)
	}
	return out
}

func main() {
	hsx.QuietGlog()
	c := vlib.Init("model_checking")
	var cfgs []hsx.Config
	cfgs = append(cfgs,
		mkConfig(c, fmt.Sprintf("empty-file/depth%d", c.Pick(5, 6)), c.Pick(5, 6), ""),
		mkConfig(c, fmt.Sprintf("preexisting-content/depth%d", c.Pick(4, 5)), c.Pick(4, 5), "old1\nold2\noldfrag"),
	)
	c.Assume = []string{
		"the tailer observes every step before the next (stream wake, pattern poll, stream wake, each followed by quiescence), as the property requires",
		"real files on tmpfs; the harness wakers replace the poll timers",
		"no state merging (the reader's buffer is a goroutine local, invisible to a state dump): every applicable history up to the depth bound is executed",
	}
	hsx.Explore(c, "explicit-state BFS over histories of {append line, append fragment, append CRLF line, truncate, rename+create, copy+truncate, delete, recreate, poll} on one real file tailed through the real Tailer and fileStream under the controlled scheduler; list model: delivered lines = lines appended after tailing began, in order, once each; a fragment pending when its generation ends (truncate, rotate, delete, stop) is delivered once on its own; checked after the last step and again after stopping the tailer", cfgs...)
}
