// C21 — histograms count every observation in exactly one bucket.
package main

import (
	"bytes"
	"context"
	"fmt"
	"math"
	"runtime"
	"sort"
	"strconv"
	"strings"

	"github.com/google/mtail/internal/exporter"
	"github.com/google/mtail/internal/metrics"
	"github.com/google/mtail/internal/metrics/datum"
	"github.com/google/mtail/internal/zverif/shared/mt"
	"github.com/google/mtail/internal/zverif/vlib"
	dto "github.com/prometheus/client_model/go"
	"github.com/prometheus/common/expfmt"
)

var universe = []float64{-1, 0, 0.5, 1, 2}

func lit(f float64) string { return strconv.FormatFloat(f, 'g', -1, 64) }

func fstr(f float64) string {
	if math.IsNaN(f) {
		return "NaN"
	}
	return strconv.FormatFloat(f, 'g', -1, 64)
}

func refBucket(bounds []float64, v float64) float64 {
	if math.IsNaN(v) {
		return math.Inf(1)
	}
	for _, b := range bounds {
		if v <= b {
			return b
		}
	}
	return math.Inf(1)
}

type caseT struct {
	Bounds []string `json:"bounds"`
	Obs    []string `json:"observations"`
}

func one(c *vlib.Ctx, w int, bounds []float64, obs []float64, irregular, fixedTime bool) {
	var bl []string
	for _, b := range bounds {
		bl = append(bl, lit(b))
	}
	var ol []string
	for _, o := range obs {
		ol = append(ol, fstr(o))
	}
	rep := caseT{bl, ol}
	src := fmt.Sprintf("histogram h buckets %s\n/^(\\S+)$/ {\n  h = float($1)\n}\n", strings.Join(bl, ", "))
	if fixedTime {
		// every observation carries the same timestamp (as lines of one second of a log do)
		src = fmt.Sprintf("histogram h buckets %s\n/^(\\S+)$/ {\n  settime(1600000000)\n  h = float($1)\n}\n", strings.Join(bl, ", "))
	}
	name := fmt.Sprintf("w%d.mtail", w)
	p, err := mt.Load(name, src, mt.Opts{})
	bk := fmt.Sprintf("bounds=%v", bl)
	if err != nil && irregular {
		return // a declaration with repeated or unsorted bounds may be refused
	}
	if irregular {
		// accepted: it must then behave as the histogram over the distinct bounds in increasing order
		set := map[float64]bool{}
		var u []float64
		for _, b := range bounds {
			if !set[b] {
				set[b] = true
				u = append(u, b)
			}
		}
		sort.Float64s(u)
		bounds = u
	}
	if err != nil {
		c.Report("compile "+bk, fmt.Sprintf("declaration with sorted bounds rejected: %v\n%s", err, src), rep)
		return
	}
	var m *metrics.Metric
	for _, x := range p.VM.Metrics {
		if x.Name == "h" {
			m = x
		}
	}
	d, _ := m.GetDatum()
	bd := datum.GetBuckets(d)
	// The declared bounds are the reference.  If the implementation dropped the
	// first declared bound (the anticipated "first bound <= 0 is only a lower
	// edge" defect), that is reported once under its own key and the remaining
	// checks continue against the bounds that do exist, so that any *other*
	// deviation on the same declaration is still seen under a different key.
	declared := bounds
	{
		var have []float64
		for r := range bd.GetBuckets() {
			if !math.IsInf(r.Max, 1) {
				have = append(have, r.Max)
			}
		}
		sort.Float64s(have)
		if fmt.Sprint(have) != fmt.Sprint(bounds) {
			c.Report("first-bound-not-a-bucket "+bk, fmt.Sprintf("declared bounds %v, buckets exist for upper bounds %v (+Inf)", bounds, have), rep)
			if len(bounds) > 0 && bounds[0] <= 0 && fmt.Sprint(have) == fmt.Sprint(bounds[1:]) {
				bounds = bounds[1:]
			} else {
				return
			}
		}
	}
	_ = declared
	want := map[float64]uint64{}
	var wantSum float64
	// one exporter for the whole sequence, scraped before the first and after every observation
	st := metrics.NewStore()
	_ = st.Add(m)
	e, err := exporter.New(context.Background(), st, exporter.Hostname("h"))
	if err != nil {
		panic(err)
	}
	defer e.Stop()
	scrape := func(nobs int) bool {
		ol := ol[:nobs]
		var buf bytes.Buffer
		if err := e.Write(&buf); err != nil {
			c.Report(fmt.Sprintf("export %s obs=%v", bk, ol), "export failed: "+err.Error(), rep)
			return false
		}
		var tp expfmt.TextParser
		fams, err := tp.TextToMetricFamilies(&buf)
		if err != nil {
			c.Report(fmt.Sprintf("export-parse %s obs=%v", bk, ol), "exposition does not parse: "+err.Error(), rep)
			return false
		}
		f := fams["h"]
		if f == nil || f.GetType() != dto.MetricType_HISTOGRAM || len(f.Metric) != 1 {
			c.Report("export-family "+bk, "no single histogram family h in the exposition", rep)
			return false
		}
		h := f.Metric[0].Histogram
		var les []float64
		got := map[float64]uint64{}
		for _, b := range h.Bucket {
			les = append(les, b.GetUpperBound())
			got[b.GetUpperBound()] = b.GetCumulativeCount()
		}
		sort.Float64s(les)
		wantLes := append(append([]float64{}, bounds...), math.Inf(1))
		// expfmt's parser only yields +Inf if present in text; encoder always writes it.
		if fmt.Sprint(les) != fmt.Sprint(wantLes) {
			c.Report("le-set "+bk, fmt.Sprintf("exported upper bounds %v, declared %v plus +Inf", les, bounds), rep)
		} else {
			var cum uint64
			for _, le := range wantLes {
				cum += want[le]
				if got[le] != cum {
					c.Report(fmt.Sprintf("cumulative %s obs=%v", bk, ol), fmt.Sprintf("after %d observations the exported cumulative count for le=%v is %d, want %d", nobs, le, got[le], cum), rep)
					break
				}
			}
		}
		if h.GetSampleCount() != uint64(nobs) {
			c.Report(fmt.Sprintf("export-count %s obs=%v", bk, ol), fmt.Sprintf("exported count %d, want %d", h.GetSampleCount(), nobs), rep)
		}
		return true
	}
	if !scrape(0) {
		return
	}
	for i, v := range obs {
		before := bd.GetBuckets()
		cntBefore := bd.GetCount()
		errs, _ := p.Line("f", fstr(v))
		if errs != 0 {
			c.Report(fmt.Sprintf("rt-error %s v=%s", bk, fstr(v)), "observation raised a runtime error: "+p.VM.RuntimeErrorString(), rep)
			return
		}
		after := bd.GetBuckets()
		grown := 0
		var where float64
		for r, n := range after {
			if n != before[r] {
				grown += int(n - before[r])
				where = r.Max
			}
		}
		wb := refBucket(bounds, v)
		want[wb]++
		wantSum += v
		if bd.GetCount() != cntBefore+1 {
			c.Report(fmt.Sprintf("count %s v=%s", bk, fstr(v)), "observation did not raise the count by one", rep)
		}
		if grown != 1 {
			c.Report(fmt.Sprintf("nobucket %s v=%s", bk, fstr(v)), fmt.Sprintf("observation #%d (%s) grew %d buckets, want exactly 1", i, fstr(v), grown), rep)
		} else if where != wb {
			c.Report(fmt.Sprintf("misbucket %s v=%s", bk, fstr(v)), fmt.Sprintf("observation %s landed in the bucket with upper bound %v, want %v", fstr(v), where, wb), rep)
		}
		if i+1 < len(obs) && !scrape(i+1) {
			return
		}
	}
	// bucket counts sum to the count
	var tot uint64
	for _, n := range bd.GetBuckets() {
		tot += n
	}
	if tot != bd.GetCount() || int(bd.GetCount()) != len(obs) {
		c.Report(fmt.Sprintf("sum-of-buckets %s obs=%v", bk, ol), fmt.Sprintf("buckets sum to %d, count is %d, observations %d", tot, bd.GetCount(), len(obs)), rep)
	}
	gs := bd.GetSum()
	if !(gs == wantSum || (math.IsNaN(gs) && math.IsNaN(wantSum))) {
		c.Report(fmt.Sprintf("sum %s obs=%v", bk, ol), fmt.Sprintf("sum is %v, want %v", gs, wantSum), rep)
	}
	scrape(len(obs))
}

func main() {
	c := vlib.Init("exploration")
	maxObs := c.Pick(2, 3)
	var lists [][]float64
	n := len(universe)
	for mask := 0; mask < 1<<n; mask++ {
		var l []float64
		for i := 0; i < n; i++ {
			if mask&(1<<i) != 0 {
				l = append(l, universe[i])
			}
		}
		if len(l) >= 2 && len(l) <= 3 {
			lists = append(lists, l)
		}
	}
	type job struct {
		b   []float64
		o   []float64
		irr bool
	}
	var jobs []job
	for _, b := range lists {
		vals := []float64{-5, 1e300, math.Inf(-1), math.Inf(1), math.NaN()}
		for _, x := range b {
			vals = append(vals, x, math.Nextafter(x, math.Inf(-1)), math.Nextafter(x, math.Inf(1)))
		}
		var gen func(cur []float64)
		gen = func(cur []float64) {
			jobs = append(jobs, job{b, append([]float64{}, cur...), false})
			if len(cur) == maxObs {
				return
			}
			for _, v := range vals {
				gen(append(cur, v))
			}
		}
		gen(nil)
	}
	// irregular declarations: one bound repeated, or the first two swapped
	nIrr := 0
	for _, b := range lists {
		var vars [][]float64
		for i := range b {
			v := append(append(append([]float64{}, b[:i+1]...), b[i]), b[i+1:]...)
			vars = append(vars, v)
		}
		sw := append([]float64{}, b...)
		sw[0], sw[1] = sw[1], sw[0]
		vars = append(vars, sw)
		vals := []float64{-5, math.Inf(1), math.NaN()}
		for _, x := range b {
			vals = append(vals, x, math.Nextafter(x, math.Inf(1)))
		}
		for _, v := range vars {
			nIrr++
			jobs = append(jobs, job{v, nil, true})
			for _, o1 := range vals {
				jobs = append(jobs, job{v, []float64{o1}, true})
				for _, o2 := range vals {
					jobs = append(jobs, job{v, []float64{o1, o2}, true})
				}
			}
		}
	}
	c.Set("irregular_boundary_lists", nIrr)
	vlib.ParallelW(len(jobs), runtime.NumCPU(), func(w, i int) {
		j := jobs[i]
		one(c, w, j.b, j.o, j.irr, false)
		if !j.irr && len(j.o) >= 2 {
			one(c, w, j.b, j.o, false, true)
		}
		k := ""
		if len(j.o) > 0 {
			k = fmt.Sprint(j.b, fmt.Sprint(j.o))
		}
		c.Eval(k)
		if i%3001 == 7 {
			var ol []string
			for _, o := range j.o {
				ol = append(ol, fstr(o))
			}
			c.Sample(map[string]interface{}{"bounds": j.b, "observations": ol})
		}
	})
	c.Set("boundary_lists", len(lists))
	c.Finish("all strictly increasing boundary lists of length 2-3 over {-1,0,0.5,1,2} × all observation sequences up to the bound over {each boundary, its float neighbours, -5, 1e300, ±Inf, NaN}, through a compiled `histogram h buckets …` program and the Prometheus exposition of one exporter scraped before the first and after every observation, with processing-time stamps and with one fixed stamp for all observations; plus every such list with one bound repeated or the first two swapped (either refused by the compiler or behaving as the histogram over the distinct sorted bounds); distinct_nontrivial = distinct (bounds, non-empty observation sequence)")
}
