// C22 — every export format reports each label set's own value.
package main

import (
	"context"
	"encoding/json"
	"fmt"
	"math"
	"net/http/httptest"
	"sort"
	"strconv"
	"strings"
	"time"

	"github.com/google/mtail/internal/exporter"
	"github.com/google/mtail/internal/metrics"
	"github.com/google/mtail/internal/metrics/datum"
	"github.com/google/mtail/internal/zverif/shared/stores"
	"github.com/google/mtail/internal/zverif/vlib"
)

type rec struct {
	ident string // format-specific identity: name + flattened labels (+ suffix)
	value string
	ts    string
}

type writes struct{ w []string }

func (x *writes) Write(p []byte) (int, error) { x.w = append(x.w, string(p)); return len(p), nil }

func numEq(got string, want float64) bool {
	f, err := strconv.ParseFloat(got, 64)
	if err != nil {
		return false
	}
	return f == want || (math.IsNaN(f) && math.IsNaN(want))
}

func flat(name string, keys, vals []string, ksep, sep string) string {
	type kv struct{ k, v string }
	var l []kv
	for i := range keys {
		l = append(l, kv{keys[i], vals[i]})
	}
	sort.Slice(l, func(i, j int) bool { return l[i].k < l[j].k })
	s := name
	for _, x := range l {
		s += sep + x.k + ksep + x.v
	}
	return s
}

func valueOf(d datum.Datum) (float64, bool) {
	switch x := d.(type) {
	case *datum.Int:
		return float64(x.Get()), true
	case *datum.Float:
		return x.Get(), true
	case *datum.Buckets:
		return x.GetSum(), true
	}
	return 0, false
}

type ctx struct {
	c      *vlib.Ctx
	shape  string
	cfg    string
	rep    interface{}
	prefix string
	host   string
}

func (x *ctx) bad(format, class, what string) {
	x.c.Report(fmt.Sprintf("%s %s %s %s", format, class, x.shape, x.cfg), what, x.rep)
}

// checkLines verifies that `lines` contains exactly one record per expected identity with the right value/ts.
func (x *ctx) checkLines(format string, got []rec, want []rec, ignore func(string) bool, raw string) {
	cnt := map[string][]rec{}
	for _, r := range got {
		cnt[r.ident] = append(cnt[r.ident], r)
	}
	wantSet := map[string]bool{}
	for _, wr := range want {
		wantSet[wr.ident] = true
		g := cnt[wr.ident]
		switch {
		case len(g) == 0:
			x.bad(format, "missing", fmt.Sprintf("no record for %s\noutput:\n%s", wr.ident, raw))
		case len(g) > 1:
			x.bad(format, "duplicate", fmt.Sprintf("%d records for %s\noutput:\n%s", len(g), wr.ident, raw))
		default:
			wf, _ := strconv.ParseFloat(wr.value, 64)
			if !numEq(g[0].value, wf) {
				x.bad(format, "value", fmt.Sprintf("record %s carries value %s, the label set holds %s\noutput:\n%s", wr.ident, g[0].value, wr.value, raw))
			} else if wr.ts != "" && g[0].ts != wr.ts {
				x.bad(format, "timestamp", fmt.Sprintf("record %s carries timestamp %s, the label set holds %s\noutput:\n%s", wr.ident, g[0].ts, wr.ts, raw))
			}
		}
	}
	for id := range cnt {
		if !wantSet[id] && !ignore(id) {
			x.bad(format, "unexpected", fmt.Sprintf("record %s does not belong to any label set in the format's scope\noutput:\n%s", id, raw))
		}
	}
}

func nonFinite(ms []*metrics.Metric) bool {
	for _, m := range ms {
		for _, lv := range m.LabelValues {
			switch d := lv.Value.(type) {
			case *datum.Float:
				if math.IsNaN(d.Get()) || math.IsInf(d.Get(), 0) {
					return true
				}
			case *datum.Buckets:
				if math.IsNaN(d.GetSum()) || math.IsInf(d.GetSum(), 0) {
					return true
				}
			}
		}
	}
	return false
}

func fstr(f float64) string { return strconv.FormatFloat(f, 'g', -1, 64) }

func runCase(c *vlib.Ctx, specs []stores.MetricSpec, prefix, host string) {
	st, ms, ok := stores.NewStore(specs)
	if !ok {
		c.Eval("")
		return
	}
	exporter.VerifSetPrefixes(prefix)
	e, err := exporter.New(context.Background(), st, exporter.Hostname(host), exporter.PushInterval(10*time.Second), exporter.DisableExport())
	if err != nil {
		panic(err)
	}
	defer e.Stop()
	var d, sh []string
	for _, s := range specs {
		d = append(d, s.String())
		sh = append(sh, fmt.Sprintf("%s/%s keys=%d sets=%d", s.Shape.Kind, s.Shape.Type, len(s.Keys), len(s.Labels)))
	}
	x := &ctx{c: c, shape: strings.Join(sh, " + "), cfg: fmt.Sprintf("prefix=%q host=%q", prefix, host), prefix: prefix, host: host,
		rep: map[string]interface{}{"metrics": d, "prefix": prefix, "host": host}}
	checkAll(x, e, ms, st, prefix, host)
	c.Eval(strings.Join(d, ";") + x.cfg)
}

func checkAll(x *ctx, e *exporter.Exporter, ms []*metrics.Metric, st *metrics.Store, prefix, host string) {
	c := x.c
	_ = c
	inScope := func(m *metrics.Metric, hist bool) bool {
		switch m.Kind {
		case metrics.Counter, metrics.Gauge, metrics.Timer:
			return true
		case metrics.Histogram:
			return hist
		}
		return false
	}
	textNames := map[string]bool{}
	for _, m := range ms {
		if m.Kind == metrics.Text || m.Kind == metrics.Histogram {
			textNames[m.Name] = true
		}
	}
	outOfScope := func(names map[string]bool) func(string) bool {
		return func(id string) bool {
			for n := range names {
				if strings.Contains(id, n) {
					return true
				}
			}
			return false
		}
	}

	// ---- varz: all metrics
	{
		w := httptest.NewRecorder()
		e.HandleVarz(w, httptest.NewRequest("GET", "/varz", nil))
		raw := w.Body.String()
		var got, want []rec
		textIdents := map[string]bool{}
		for _, l := range strings.Split(strings.TrimSuffix(raw, "\n"), "\n") {
			if l == "" {
				continue
			}
			i, j := strings.Index(l, "{"), strings.LastIndex(l, "} ")
			if i < 0 || j < 0 {
				x.bad("varz", "malformed", "line "+strconv.Quote(l))
				continue
			}
			got = append(got, rec{ident: l[:j+1], value: l[j+2:]})
		}
		for _, m := range ms {
			for _, lv := range m.LabelValues {
				var kv []string
				for i, k := range m.Keys {
					kv = append(kv, k+"="+lv.Labels[i])
				}
				sort.Strings(kv)
				kv = append(kv, "prog="+m.Program, "instance="+host)
				id := m.Name + "{" + strings.Join(kv, ",") + "}"
				if v, ok := valueOf(lv.Value); ok {
					want = append(want, rec{ident: id, value: fstr(v)})
				} else {
					// text: compare verbatim
					textIdents[id] = true
					found := 0
					for _, g := range got {
						if g.ident == id && g.value == datum.GetString(lv.Value) {
							found++
						}
					}
					if found != 1 {
						x.bad("varz", "text", fmt.Sprintf("%d records for text metric %s with its value\noutput:\n%s", found, id, raw))
					}
				}
			}
		}
		x.checkLines("varz", got, want, func(id string) bool { return textIdents[id] }, raw)
		_ = textNames
	}
	textOnly := map[string]bool{}
	histOnly := map[string]bool{}
	for _, m := range ms {
		if m.Kind == metrics.Text {
			textOnly["."+m.Name] = true
			textOnly["-"+m.Name] = true
		}
		if m.Kind == metrics.Histogram {
			histOnly["."+m.Name] = true
			histOnly["-"+m.Name] = true
		}
	}
	// ---- graphite (HTTP and push formatter)
	graphiteWant := func() []rec {
		var want []rec
		for _, m := range ms {
			if !inScope(m, true) {
				continue
			}
			for _, lv := range m.LabelValues {
				base := prefix + m.Program + "." + flat(m.Name, m.Keys, lv.Labels, ".", ".")
				ts := fmt.Sprint(lv.Value.TimeUTC().Unix())
				if b, ok := lv.Value.(*datum.Buckets); ok {
					for r, n := range b.GetBuckets() {
						bn := "inf"
						if !math.IsInf(r.Max, 1) {
							bn = fmt.Sprintf("%v", r.Max)
						}
						want = append(want, rec{ident: base + ".bin_" + bn, value: fmt.Sprint(n), ts: ts})
					}
					want = append(want, rec{ident: base + ".count", value: fmt.Sprint(b.GetCount()), ts: ts})
				}
				v, _ := valueOf(lv.Value)
				want = append(want, rec{ident: base, value: fstr(v), ts: ts})
			}
		}
		return want
	}
	parseGraphite := func(raw string) []rec {
		var got []rec
		for _, l := range strings.Split(strings.TrimSuffix(raw, "\n"), "\n") {
			if l == "" {
				continue
			}
			f := strings.Split(l, " ")
			if len(f) < 3 {
				x.bad("graphite", "malformed", "line "+strconv.Quote(l))
				continue
			}
			got = append(got, rec{ident: strings.Join(f[:len(f)-2], " "), value: f[len(f)-2], ts: f[len(f)-1]})
		}
		return got
	}
	{
		w := httptest.NewRecorder()
		e.HandleGraphite(w, httptest.NewRequest("GET", "/graphite", nil))
		raw := w.Body.String()
		x.checkLines("graphite-http", parseGraphite(raw), graphiteWant(), outOfScope(textOnly), raw)
		var ww writes
		if err := e.VerifWriteSocket(&ww, "graphite"); err != nil {
			x.bad("graphite-push", "error", err.Error())
		}
		raw = strings.Join(ww.w, "")
		x.checkLines("graphite-push", parseGraphite(raw), graphiteWant(), outOfScope(textOnly), raw)
	}
	// ---- statsd
	{
		var ww writes
		if err := e.VerifWriteSocket(&ww, "statsd"); err != nil {
			x.bad("statsd", "error", err.Error())
		}
		var got, want []rec
		for _, l := range ww.w {
			i, j := strings.LastIndex(l, ":"), strings.LastIndex(l, "|")
			if i < 0 || j < i {
				x.bad("statsd", "malformed", "packet "+strconv.Quote(l))
				continue
			}
			got = append(got, rec{ident: l[:i] + l[j:], value: l[i+1 : j]})
		}
		for _, m := range ms {
			if !inScope(m, false) {
				continue
			}
			t := map[metrics.Kind]string{metrics.Counter: "c", metrics.Gauge: "g", metrics.Timer: "ms"}[m.Kind]
			for _, lv := range m.LabelValues {
				v, _ := valueOf(lv.Value)
				want = append(want, rec{ident: prefix + m.Program + "." + flat(m.Name, m.Keys, lv.Labels, ".", ".") + "|" + t, value: fstr(v)})
			}
		}
		x.checkLines("statsd", got, want, outOfScope(histOnly), strings.Join(ww.w, "\n"))
	}
	// ---- collectd
	{
		var ww writes
		if err := e.VerifWriteSocket(&ww, "collectd"); err != nil {
			x.bad("collectd", "error", err.Error())
		}
		raw := strings.Join(ww.w, "")
		var got, want []rec
		for _, l := range strings.Split(strings.TrimSuffix(raw, "\n"), "\n") {
			if l == "" {
				continue
			}
			var id, rest string
			if !strings.HasPrefix(l, "PUTVAL \"") {
				x.bad("collectd", "malformed", "line "+strconv.Quote(l))
				continue
			}
			k := strings.Index(l[8:], "\" ")
			if k < 0 {
				x.bad("collectd", "malformed", "line "+strconv.Quote(l))
				continue
			}
			id, rest = l[8:8+k], l[8+k+2:]
			f := strings.Split(rest, " ")
			if len(f) != 2 || f[0] != "interval=10" || strings.Count(f[1], ":") != 1 {
				x.bad("collectd", "malformed", "line "+strconv.Quote(l))
				continue
			}
			tv := strings.Split(f[1], ":")
			got = append(got, rec{ident: id, ts: tv[0], value: tv[1]})
		}
		for _, m := range ms {
			if !inScope(m, false) {
				continue
			}
			typ := map[metrics.Kind]string{metrics.Counter: "counter", metrics.Gauge: "gauge", metrics.Timer: "gauge"}[m.Kind]
			for _, lv := range m.LabelValues {
				v, _ := valueOf(lv.Value)
				want = append(want, rec{ident: host + "/" + prefix + "mtail-" + m.Program + "/" + typ + "-" + flat(m.Name, m.Keys, lv.Labels, "-", "-"), value: fstr(v), ts: fmt.Sprint(lv.Value.TimeUTC().Unix())})
			}
		}
		x.checkLines("collectd", got, want, outOfScope(histOnly), raw)
	}
	// ---- JSON
	{
		w := httptest.NewRecorder()
		e.HandleJSON(w, httptest.NewRequest("GET", "/json", nil))
		raw := w.Body.String()
		if w.Code != 200 && nonFinite(ms) && strings.Contains(raw, "unsupported value") {
			c.Report("json failed: a float datum is NaN or ±Inf", fmt.Sprintf("HTTP %d: %s", w.Code, strings.TrimSpace(raw)), x.rep)
		} else if w.Code != 200 {
			x.bad("json", "failed", fmt.Sprintf("HTTP %d: %s", w.Code, strings.TrimSpace(raw)))
		} else {
			var dec []struct {
				Name, Program string
				Kind, Type    int
				Keys          []string
				LabelValues   []struct {
					Labels []string
					Value  map[string]interface{}
				}
			}
			dj := json.NewDecoder(strings.NewReader(raw))
			dj.UseNumber()
			if err := dj.Decode(&dec); err != nil {
				x.bad("json", "malformed", err.Error())
			} else {
				if len(dec) != len(ms) {
					x.bad("json", "count", fmt.Sprintf("%d metrics in JSON, %d in store", len(dec), len(ms)))
				}
				for _, m := range ms {
					n := 0
					for _, dm := range dec {
						if dm.Name != m.Name || dm.Program != m.Program {
							continue
						}
						n++
						if dm.Kind != int(m.Kind) || dm.Type != int(m.Type) || fmt.Sprint(dm.Keys) != fmt.Sprint(m.Keys) && !(len(dm.Keys) == 0 && len(m.Keys) == 0) {
							x.bad("json", "descriptor", fmt.Sprintf("metric %s: kind/type/keys differ: %+v", m.Name, dm))
						}
						if len(dm.LabelValues) != len(m.LabelValues) {
							x.bad("json", "labelsets", fmt.Sprintf("metric %s: %d label sets in JSON, %d in store", m.Name, len(dm.LabelValues), len(m.LabelValues)))
							continue
						}
						for i, lv := range m.LabelValues {
							dl := dm.LabelValues[i]
							if fmt.Sprint(dl.Labels) != fmt.Sprint(lv.Labels) && !(len(dl.Labels) == 0 && len(lv.Labels) == 0) {
								x.bad("json", "labels", fmt.Sprintf("metric %s label set %d: %q vs %q", m.Name, i, dl.Labels, lv.Labels))
							}
							if fmt.Sprint(dl.Value["Time"]) != fmt.Sprint(lv.Value.TimeUTC().UnixNano()) {
								x.bad("json", "timestamp", fmt.Sprintf("metric %s label set %d: time %v vs %d", m.Name, i, dl.Value["Time"], lv.Value.TimeUTC().UnixNano()))
							}
							switch dd := lv.Value.(type) {
							case *datum.Int:
								if fmt.Sprint(dl.Value["Value"]) != fmt.Sprint(dd.Get()) {
									x.bad("json", "value", fmt.Sprintf("metric %s label set %d: %v vs %d", m.Name, i, dl.Value["Value"], dd.Get()))
								}
							case *datum.Float:
								if !numEq(fmt.Sprint(dl.Value["Value"]), dd.Get()) {
									x.bad("json", "value", fmt.Sprintf("metric %s label set %d: %v vs %v", m.Name, i, dl.Value["Value"], dd.Get()))
								}
							case *datum.String:
								if dl.Value["Value"] != dd.Get() {
									x.bad("json", "value", fmt.Sprintf("metric %s label set %d: %v vs %q", m.Name, i, dl.Value["Value"], dd.Get()))
								}
							case *datum.Buckets:
								if fmt.Sprint(dl.Value["Count"]) != fmt.Sprint(dd.GetCount()) {
									x.bad("json", "value", fmt.Sprintf("metric %s label set %d: count %v vs %d", m.Name, i, dl.Value["Count"], dd.GetCount()))
								}
							}
						}
					}
					if n != 1 {
						x.bad("json", "count", fmt.Sprintf("metric %s/%s appears %d times", m.Program, m.Name, n))
					}
				}
				// mtail's own decoder is defined for integer data only
				allInt := true
				for _, m := range ms {
					if m.Type != metrics.Int {
						allInt = false
					}
				}
				if allInt && len(ms) > 0 {
					var back []*metrics.Metric
					if err := json.Unmarshal([]byte(raw), &back); err != nil {
						x.bad("json", "roundtrip", "mtail's own decoder rejects mtail's JSON: "+err.Error())
					} else {
						for i, m := range ms {
							var bm *metrics.Metric
							for _, b := range back {
								if b.Name == m.Name && b.Program == m.Program {
									bm = b
								}
							}
							if bm == nil || len(bm.LabelValues) != len(m.LabelValues) {
								x.bad("json", "roundtrip", fmt.Sprintf("metric %d lost in round trip", i))
								continue
							}
							for j, lv := range m.LabelValues {
								if fmt.Sprint(bm.LabelValues[j].Labels) != fmt.Sprint(lv.Labels) && len(lv.Labels) > 0 || datum.GetInt(bm.LabelValues[j].Value) != datum.GetInt(lv.Value) || !bm.LabelValues[j].Value.TimeUTC().Equal(lv.Value.TimeUTC()) {
									x.bad("json", "roundtrip", fmt.Sprintf("metric %s label set %d changed in round trip", m.Name, j))
								}
							}
						}
					}
				}
			}
		}
	}
}

// ---- histories: exports interleaved with label-set churn on one live metric
// (an exporter-side or metric-side cache that survives between exports shows here)

type hop struct {
	kind string // set, remove
	t    string
}

func runHistory(c *vlib.Ctx, sh stores.Shape, ops []hop) {
	st := metrics.NewStore()
	m := metrics.NewMetric("foo", "p", sh.Kind, sh.Type, "a")
	if sh.Type == metrics.Buckets {
		m.Buckets = stores.BucketRanges
	}
	_ = st.Add(m)
	exporter.VerifSetPrefixes("")
	e, err := exporter.New(context.Background(), st, exporter.Hostname("h"), exporter.PushInterval(10*time.Second), exporter.DisableExport())
	if err != nil {
		panic(err)
	}
	defer e.Stop()
	var hs []string
	for i, o := range ops {
		hs = append(hs, o.kind+"("+o.t+")")
		switch o.kind {
		case "set":
			d, _ := m.GetDatum(o.t)
			ts := stores.Stamp(0, i)
			switch sh.Type {
			case metrics.Int:
				datum.SetInt(d, int64(10*(i+1))+int64(len(o.t)), ts)
			case metrics.Float:
				datum.SetFloat(d, float64(i)+0.25, ts)
			case metrics.Buckets:
				datum.Observe(d, float64(i)+0.25, ts)
			}
		case "remove":
			_ = m.RemoveDatum(o.t)
		case "export":
			x := &ctx{c: c, shape: fmt.Sprintf("history %s/%s", sh.Kind, sh.Type), cfg: " after " + strings.Join(hs, ";"), prefix: "", host: "h",
				rep: map[string]interface{}{"shape": fmt.Sprintf("%s/%s keys=[a]", sh.Kind, sh.Type), "history": append([]string{}, hs...)}}
			checkAll(x, e, []*metrics.Metric{m}, st, "", "h")
		}
	}
	c.Eval("history " + fmt.Sprint(sh) + strings.Join(hs, ";"))
}

func histories(c *vlib.Ctx) int {
	alpha := []hop{{"export", ""}}
	for _, t := range []string{"x", "y", "z1"} {
		alpha = append(alpha, hop{"set", t}, hop{"remove", t})
	}
	depth := c.Pick(6, 7) // including the final export
	shapes := []stores.Shape{{Kind: metrics.Counter, Type: metrics.Int}, {Kind: metrics.Histogram, Type: metrics.Buckets}}
	if c.Thorough() {
		shapes = append(shapes, stores.Shape{Kind: metrics.Gauge, Type: metrics.Float})
	}
	n := 0
	for _, sh := range shapes {
		var rec func(cur []hop)
		rec = func(cur []hop) {
			if len(cur) == depth-1 {
				runHistory(c, sh, append(append([]hop{}, cur...), hop{"export", ""}))
				n++
				return
			}
			for _, o := range alpha {
				if o.kind == "export" && (len(cur) == 0 || cur[len(cur)-1].kind == "export") {
					continue // an export of an unchanged metric adds nothing
				}
				rec(append(cur, o))
			}
		}
		rec(nil)
	}
	return n
}

func main() {
	c := vlib.Init("exploration")
	keyLists := [][]string{{}, {"a"}, {"b", "a"}}
	vals := []string{"x", "y%d", "z1"} // one value holds a printf verb
	var singles []stores.MetricSpec
	for _, sh := range stores.Shapes {
		for _, ks := range keyLists {
			for _, ls := range stores.LabelChoices(ks, vals) {
				for rot := 0; rot < 7; rot += c.Pick(2, 1) {
					singles = append(singles, stores.MetricSpec{Shape: sh, Name: "foo", Prog: "p", Keys: ks, Labels: ls, ValRot: rot})
				}
			}
		}
	}
	var jobs [][]stores.MetricSpec
	jobs = append(jobs, nil)
	for _, s := range singles {
		jobs = append(jobs, []stores.MetricSpec{s})
	}
	// pairs: second metric `bar` of program q, reduced set (label sets of size 2 only)
	var red []stores.MetricSpec
	for _, s := range singles {
		if len(s.Labels) == 2 || (len(s.Keys) == 0 && len(s.Labels) == 1) {
			if c.Quick() && s.ValRot != 0 {
				continue
			}
			red = append(red, s)
		}
	}
	for i, a := range red {
		for j, b := range red {
			if c.Quick() && (i+j)%5 != 0 {
				continue
			}
			b.Name, b.Prog = "bar", "q"
			jobs = append(jobs, []stores.MetricSpec{a, b})
		}
	}
	// the prefix flags are process-global: run configurations one after the other, stores in sequence
	// (handlers are cheap; ~100k cases)
	for _, pf := range []string{"", "pfx."} {
		for _, host := range []string{"h", "h.example"} {
			for i, j := range jobs {
				runCase(c, j, pf, host)
				if i%4001 == 7 {
					var d []string
					for _, s := range j {
						d = append(d, s.String())
					}
					c.Sample(map[string]interface{}{"metrics": d, "prefix": pf, "host": host})
				}
			}
		}
	}
	c.Set("histories", histories(c))
	c.Set("stores", len(jobs))
	c.Assume = []string{"label values are free of blanks and of the separators of the target formats, as the property requires", "records of metric kinds outside a format's scope (text; histograms for statsd/collectd) are neither required nor forbidden"}
	c.Finish("all single-metric stores over 7 kind/type shapes × key lists {[], [a], [b,a]} × all label-set contents of size<=2 over {x,y%d,z1} × value rotations (ints, floats incl. non-finite, strings, histogram observation sets), and pairs with a second program's metric; × prefix {\"\", pfx.} × hostname {h, h.example}; formats varz, graphite (HTTP and push), statsd, collectd, JSON (generic decode + mtail's own decoder for integer stores); each output parsed by an independent parser: exactly one well-formed record per (metric, label set) in scope carrying that label set's value and timestamp; plus all histories of length 6 (thorough 7) over {set t, remove t, export every format} × 3 label tuples on one live metric (int counter, histogram; thorough: float gauge), ending in an export. distinct_nontrivial = distinct (store, configuration)")
}
