// C18 — every matching log path is tailed, once.
// Explicit-state BFS over file-system histories in a small real directory tree
// watched by the real Tailer (glob polling, ignore filter, path
// de-duplication) under the controlled scheduler.
package main

import (
	"fmt"
	"os"
	"path/filepath"
	"regexp"
	"sort"
	"strings"
	"time"

	"github.com/google/mtail/internal/tailer"
	"github.com/google/mtail/internal/zverif/hsx"
	"github.com/google/mtail/internal/zverif/shared/tlx"
	"github.com/google/mtail/internal/zverif/vlib"
	"github.com/google/mtail/internal/zverif/vrt"
)

type op struct {
	kind string // create, delete, append, rename, mkdir, rmdir, poll
	f, g string
}

func (o op) String() string {
	switch o.kind {
	case "rename":
		return "rename(" + o.f + "->" + o.g + ")"
	case "wake-streams", "poll-patterns":
		return o.kind
	}
	return o.kind + "(" + o.f + ")"
}

var files = []string{"d/a.log", "d/b.log", "d/a.log.gz", "d/sub/c.log"}

func allOps() []op {
	var ops []op
	for _, f := range files {
		ops = append(ops, op{kind: "create", f: f}, op{kind: "delete", f: f}, op{kind: "append", f: f})
	}
	ops = append(ops,
		op{kind: "rename", f: "d/a.log", g: "d/b.log"},
		op{kind: "rename", f: "d/a.log", g: "d/a.log.gz"},
		op{kind: "rename", f: "d/b.log", g: "d/sub/c.log"},
		op{kind: "mkdir", f: "d/sub"}, op{kind: "rmdir", f: "d/sub"},
		op{kind: "mkdir", f: "d/x.log"}, op{kind: "rmdir", f: "d/x.log"},
		op{kind: "wake-streams"},
		op{kind: "poll-patterns"},
	)
	return ops
}

type model struct {
	files map[string]bool // regular files
	dirs  map[string]bool
}

func (m *model) apply(o op) bool {
	parentOK := func(p string) bool { return m.dirs[filepath.Dir(p)] }
	switch o.kind {
	case "create":
		if m.files[o.f] || m.dirs[o.f] || !parentOK(o.f) {
			return false
		}
		m.files[o.f] = true
	case "delete":
		if !m.files[o.f] {
			return false
		}
		delete(m.files, o.f)
	case "append":
		if !m.files[o.f] {
			return false
		}
	case "rename":
		// renaming onto an existing file is a rotation of the target path (its new contents are new to
		// that path); rotation is the subject of C16, so only renames to a free name are generated here
		if !m.files[o.f] || m.dirs[o.g] || m.files[o.g] || !parentOK(o.g) {
			return false
		}
		delete(m.files, o.f)
		m.files[o.g] = true
	case "mkdir":
		if m.files[o.f] || m.dirs[o.f] {
			return false
		}
		m.dirs[o.f] = true
	case "rmdir":
		if !m.dirs[o.f] {
			return false
		}
		for f := range m.files {
			if filepath.Dir(f) == o.f {
				return false
			}
		}
		delete(m.dirs, o.f)
	}
	return true
}

type config struct {
	name     string
	patterns []string // relative to the scratch root; "ABS:" prefix = absolute spelling
	ignore   string
}

func (cf config) wantTailed(m *model) []string {
	var ig *regexp.Regexp
	if cf.ignore != "" {
		ig = regexp.MustCompile(cf.ignore)
	}
	var out []string
	for f := range m.files {
		ok := false
		for _, p := range cf.patterns {
			p = strings.TrimPrefix(p, "ABS:")
			if m, _ := filepath.Match(p, f); m {
				ok = true
			}
		}
		if ok && (ig == nil || !ig.MatchString(filepath.Base(f))) {
			out = append(out, f)
		}
	}
	sort.Strings(out)
	return out
}

func mkConfig(c *vlib.Ctx, cf config, depth int, prefix []string) hsx.Config {
	ops := allOps()
	names := make([]string, len(ops))
	for i, o := range ops {
		names[i] = o.String()
	}
	return hsx.Config{
		Name: cf.name + fmt.Sprintf("/from%v/depth%d", prefix, depth), Ops: names, MaxDepth: depth, Deadline: c.Deadline(6*time.Minute, 40*time.Minute),
		Run: func(hist0 []int) hsx.Result {
			var hist []int
			for _, pn := range prefix {
				for i, n := range names {
					if n == pn {
						hist = append(hist, i)
					}
				}
			}
			hist = append(hist, hist0...)
			root, err := os.MkdirTemp("/dev/shm", "c18.")
			if err != nil {
				return hsx.Result{Violation: "harness: " + err.Error(), VKey: "harness-tempdir"}
			}
			defer os.RemoveAll(root)
			root, _ = filepath.EvalSymlinks(root)
			if err := os.Chdir(root); err != nil {
				return hsx.Result{Violation: "harness: " + err.Error(), VKey: "harness-chdir"}
			}
			defer os.Chdir("/")
			_ = os.Mkdir("d", 0o755)
			mo := &model{files: map[string]bool{}, dirs: map[string]bool{"d": true}}
			var hs []string
			for _, i := range hist {
				hs = append(hs, names[i])
			}
			hstr := strings.Join(hs, " ; ")
			var res hsx.Result
			applic := true
			viol := func(cls, what string) {
				if res.Violation == "" {
					res = hsx.Result{Violation: fmt.Sprintf("patterns %q ignore %q; history (tailer polls after every step): %s\n%s", cf.patterns, cf.ignore, hstr, what), VKey: cls + " [" + cf.name + "]: " + hstr}
				}
			}
			var pats []string
			for _, p := range cf.patterns {
				if strings.HasPrefix(p, "ABS:") {
					pats = append(pats, filepath.Join(root, strings.TrimPrefix(p, "ABS:")))
				} else {
					pats = append(pats, p)
				}
			}
			er := hsx.Exec(600000, func() {
				lc0 := tailer.VerifLogCount()
				var opts []tailer.Option
				if cf.ignore != "" {
					opts = append(opts, tailer.IgnoreRegex(cf.ignore))
				}
				t := tlx.Start(pats, opts...)
				if t.Err != nil {
					viol("start", t.Err.Error())
					return
				}
				// model of what must have happened
				created := map[string]int{}     // path -> step at which the current file was created
				tailedSince := map[string]int{} // path -> step of the poll that (first) found the current file
				everExpected := map[string]bool{}
				appended := map[string]string{} // "abs: text" -> path (all payloads ever appended)
				var mustHave []string           // lines that must have been delivered by now
				step := 0
				checkAfterPoll := func() {
					want := cf.wantTailed(mo)
					got := rel(root, t.T.VerifStreams())
					gotSet := map[string]bool{}
					for _, g := range got {
						gotSet[g] = true
					}
					for _, wnt := range want {
						everExpected[wnt] = true
						if !gotSet[wnt] {
							viol("not-tailed", fmt.Sprintf("after the pattern poll %q exists, matches a pattern and is not ignored, but has no stream; paths with a stream: %q", wnt, got))
							return
						}
						if _, ok := tailedSince[wnt]; !ok {
							tailedSince[wnt] = step
						}
					}
					for _, g := range got {
						if !everExpected[g] {
							viol("tailed-wrongly", fmt.Sprintf("%q has a stream although it never was an existing regular file matching a pattern and not ignored; expected now: %q", g, want))
							return
						}
					}
					if d := tailer.VerifLogCount() - lc0; d != int64(len(got)) {
						viol("log_count", fmt.Sprintf("log_count moved by %d since start, %d paths have a stream", d, len(got)))
					}
				}
				checkLines := func() {
					seen := map[string]int{}
					seenText := map[string]int{}
					for _, l := range t.Lines {
						k := l.File + ": " + l.Text
						seen[k]++
						seenText[l.Text]++
						if seenText[l.Text] > 1 {
							viol("duplicate-line", fmt.Sprintf("line %q was delivered %d times; all delivered: %q", l.Text, seenText[l.Text], relLines(root, t.Lines)))
							return
						}
						if _, ok := appended[k]; !ok {
							viol("foreign-line", fmt.Sprintf("delivered %q, which was never appended to that path", strings.ReplaceAll(k, root+"/", "")))
							return
						}
						if seen[k] > 1 {
							viol("duplicate-line", fmt.Sprintf("line %q was delivered %d times; all delivered: %q", strings.ReplaceAll(k, root+"/", ""), seen[k], relLines(root, t.Lines)))
							return
						}
					}
					for _, k := range mustHave {
						if seen[k] == 0 {
							viol("lost-line", fmt.Sprintf("line %q was appended to a path whose stream was on that very file and the streams were woken, but it was not delivered; delivered: %q", strings.ReplaceAll(k, root+"/", ""), relLines(root, t.Lines)))
							return
						}
					}
				}
				for i, oi := range hist {
					o := ops[oi]
					step = i + 1
					if !mo.apply(o) {
						applic = false
						break
					}
					var err error
					switch o.kind {
					case "create":
						err = os.WriteFile(o.f, nil, 0o644)
						created[o.f] = step
						delete(tailedSince, o.f)
					case "delete":
						err = os.Remove(o.f)
						delete(created, o.f)
						delete(tailedSince, o.f)
					case "append":
						line := fmt.Sprintf("line%d", step)
						var f *os.File
						f, err = os.OpenFile(o.f, os.O_APPEND|os.O_WRONLY, 0o644)
						if err == nil {
							_, err = f.WriteString(line + "\n")
							f.Close()
						}
						k := filepath.Join(root, o.f) + ": " + line
						appended[k] = o.f
						t.Streams.Broadcast()
						vrt.Quiesce()
						if _, ok := tailedSince[o.f]; ok {
							mustHave = append(mustHave, k)
						}
					case "rename":
						// a stream left over from a file that used to be at the target path (deleted, not yet observed)
						// notices that first: a rename onto a path that still has a stream is a rotation of that path
						// (C16), whatever the directory says
						t.Streams.Broadcast()
						vrt.Quiesce()
						err = os.Rename(o.f, o.g)
						// the old path's stream is woken at once so that it notices the path is gone; otherwise it
						// would keep following the renamed inode under the old name, which is rotation (C16), not C18
						t.Streams.Broadcast()
						vrt.Quiesce()
						created[o.g] = step
						delete(created, o.f)
						delete(tailedSince, o.f)
						delete(tailedSince, o.g)
					case "mkdir":
						err = os.Mkdir(o.f, 0o755)
					case "rmdir":
						err = os.Remove(o.f)
					case "wake-streams":
						t.Streams.Broadcast()
						vrt.Quiesce()
					case "poll-patterns":
						t.Pattern.Broadcast()
						vrt.Quiesce()
					}
					if err != nil {
						viol("harness-fs", o.String()+": "+err.Error())
						break
					}
					if i < len(hist)-1 {
						if o.kind == "poll-patterns" {
							// keep the model's tailedSince current (no verdict here: that prefix was judged as its own history)
							for _, wnt := range cf.wantTailed(mo) {
								everExpected[wnt] = true
								if _, ok := tailedSince[wnt]; !ok {
									tailedSince[wnt] = step
								}
							}
						}
						continue
					}
					if o.kind == "poll-patterns" {
						checkAfterPoll()
					}
					checkLines()
				}
				if applic && res.Violation == "" {
					var fs, ds []string
					for f := range mo.files {
						fs = append(fs, f)
					}
					for d := range mo.dirs {
						ds = append(ds, d)
					}
					sort.Strings(fs)
					sort.Strings(ds)
					res.Key = fmt.Sprintf("files=%v dirs=%v tailed=%v lines=%d", fs, ds, rel(root, t.T.VerifStreams()), len(t.Lines)) + " " + hstr
				}
				t.Stop()
			})
			if !applic {
				return hsx.Result{}
			}
			if a := hsx.Anomaly(er); a != "" && res.Violation == "" {
				viol("anomaly "+strings.SplitN(a, "\n", 2)[0], a)
			}
			return res
		},
	}
}

func relLines(root string, ls []tlx.Line) []string {
	var out []string
	for _, l := range ls {
		out = append(out, strings.ReplaceAll(l.File, root+"/", "")+": "+l.Text)
	}
	return out
}

func rel(root string, ps []string) []string {
	var out []string
	for _, p := range ps {
		out = append(out, strings.ReplaceAll(p, root+"/", ""))
	}
	return out
}

func main() {
	hsx.QuietGlog()
	c := vlib.Init("model_checking")
	cfs := []config{
		{"one-glob", []string{"d/*.log"}, ""},
		{"overlapping-globs", []string{"d/*.log", "d/a*"}, ""},
		{"relative+absolute-spelling", []string{"d/*.log", "ABS:d/*.log"}, ""},
		{"nested+flat/ignore-gz", []string{"d/*/*.log", "d/*"}, `\.gz$`},
		{"one-glob/ignore-anchored-at-name-start", []string{"d/*.log"}, `^b`},
		{"nested/ignore-matches-a-directory-name", []string{"d/*/*.log", "d/*.log"}, `sub|^a\.log\.gz`},
	}
	if c.Thorough() {
		cfs = append(cfs, config{"overlapping-globs/ignore-gz", []string{"d/*.log", "d/a*"}, `\.gz$`}, config{"literal+glob", []string{"d/a.log", "d/*.log"}, ""})
	}
	var cfgs []hsx.Config
	for _, cf := range cfs {
		cfgs = append(cfgs, mkConfig(c, cf, c.Pick(4, 5), nil))
		cfgs = append(cfgs, mkConfig(c, cf, c.Pick(4, 5), []string{"create(d/a.log)", "poll-patterns"}))
	}
	if c.Thorough() {
		cfgs = append(cfgs, mkConfig(c, cfs[0], 6, nil), mkConfig(c, cfs[3], 5, []string{"mkdir(d/sub)", "create(d/sub/c.log)", "create(d/a.log.gz)", "poll-patterns"}))
	}
	c.Assume = []string{
		"stream wake-ups and pattern polls are explicit operations of the history (each followed by quiescence), so file-system changes may pile up between polls",
		"regular files and directories on tmpfs; unreadable files and symlinks are not generated",
		"no state merging: the line readers' buffers and stream goroutines are not reachable by a state dump, so every applicable history up to the depth bound is executed",
	}
	hsx.Explore(c, "explicit-state BFS over histories of {create, delete, append a unique line (+stream wake), rename to a free name (+stream wake), mkdir/rmdir of a plain and of a pattern-matching directory name, wake streams, poll patterns} on the tree {d/a.log, d/b.log, d/a.log.gz, d/sub/c.log, d/x.log/} for 6 (thorough 8) pattern/ignore configurations (single glob, overlapping globs, relative+absolute spelling of one glob, nested+flat with an ignore regex, an ignore regex anchored at the start of the name, an ignore regex that matches a directory name) through the real Tailer; after a pattern poll every existing regular file that matches a pattern and is not ignored has a stream, nothing that never qualified has one, log_count equals the number of streams; no line is ever delivered twice or under a path it was not written to; a line appended to a path whose stream is on that very file is delivered once the streams are woken", cfgs...)
}
