// C18 — every matching log path is tailed, once.
// Explicit-state BFS over file-system histories in a small real directory tree
// watched by the real Tailer (glob polling, ignore filter, path
// de-duplication) under the controlled scheduler.
package main

import (
	"fmt"
	"os"
	"path/filepath"
	"regexp"
	"sort"
	"strings"
	"time"

	"github.com/google/mtail/internal/tailer"
	"github.com/google/mtail/internal/zverif/hsx"
	"github.com/google/mtail/internal/zverif/shared/tlx"
	"github.com/google/mtail/internal/zverif/vlib"
)

type op struct {
	kind string // create, delete, append, rename, mkdir, rmdir, poll
	f, g string
}

func (o op) String() string {
	switch o.kind {
	case "rename":
		return "rename(" + o.f + "->" + o.g + ")"
	case "poll":
		return "poll"
	}
	return o.kind + "(" + o.f + ")"
}

var files = []string{"d/a.log", "d/b.log", "d/a.log.gz", "d/sub/c.log"}

func allOps() []op {
	var ops []op
	for _, f := range files {
		ops = append(ops, op{kind: "create", f: f}, op{kind: "delete", f: f}, op{kind: "append", f: f})
	}
	ops = append(ops,
		op{kind: "rename", f: "d/a.log", g: "d/b.log"},
		op{kind: "rename", f: "d/a.log", g: "d/a.log.gz"},
		op{kind: "rename", f: "d/b.log", g: "d/sub/c.log"},
		op{kind: "mkdir", f: "d/sub"}, op{kind: "rmdir", f: "d/sub"},
		op{kind: "mkdir", f: "d/x.log"}, op{kind: "rmdir", f: "d/x.log"},
		op{kind: "poll"},
	)
	return ops
}

type model struct {
	files map[string]bool // regular files
	dirs  map[string]bool
}

func (m *model) apply(o op) bool {
	parentOK := func(p string) bool { return m.dirs[filepath.Dir(p)] }
	switch o.kind {
	case "create":
		if m.files[o.f] || m.dirs[o.f] || !parentOK(o.f) {
			return false
		}
		m.files[o.f] = true
	case "delete":
		if !m.files[o.f] {
			return false
		}
		delete(m.files, o.f)
	case "append":
		if !m.files[o.f] {
			return false
		}
	case "rename":
		// renaming onto an existing file is a rotation of the target path (its new contents are new to
		// that path); rotation is the subject of C16, so only renames to a free name are generated here
		if !m.files[o.f] || m.dirs[o.g] || m.files[o.g] || !parentOK(o.g) {
			return false
		}
		delete(m.files, o.f)
		m.files[o.g] = true
	case "mkdir":
		if m.files[o.f] || m.dirs[o.f] {
			return false
		}
		m.dirs[o.f] = true
	case "rmdir":
		if !m.dirs[o.f] {
			return false
		}
		for f := range m.files {
			if filepath.Dir(f) == o.f {
				return false
			}
		}
		delete(m.dirs, o.f)
	}
	return true
}

type config struct {
	name     string
	patterns []string // relative to the scratch root; "ABS:" prefix = absolute spelling
	ignore   string
}

func (cf config) wantTailed(m *model) []string {
	var ig *regexp.Regexp
	if cf.ignore != "" {
		ig = regexp.MustCompile(cf.ignore)
	}
	var out []string
	for f := range m.files {
		ok := false
		for _, p := range cf.patterns {
			p = strings.TrimPrefix(p, "ABS:")
			if m, _ := filepath.Match(p, f); m {
				ok = true
			}
		}
		if ok && (ig == nil || !ig.MatchString(filepath.Base(f))) {
			out = append(out, f)
		}
	}
	sort.Strings(out)
	return out
}

func mkConfig(c *vlib.Ctx, cf config, depth int) hsx.Config {
	ops := allOps()
	names := make([]string, len(ops))
	for i, o := range ops {
		names[i] = o.String()
	}
	return hsx.Config{
		Name: cf.name, Ops: names, MaxDepth: depth, Deadline: c.Deadline(6*time.Minute, 40*time.Minute),
		Run: func(hist []int) hsx.Result {
			root, err := os.MkdirTemp("/dev/shm", "c18.")
			if err != nil {
				return hsx.Result{Violation: "harness: " + err.Error(), VKey: "harness-tempdir"}
			}
			defer os.RemoveAll(root)
			root, _ = filepath.EvalSymlinks(root)
			if err := os.Chdir(root); err != nil {
				return hsx.Result{Violation: "harness: " + err.Error(), VKey: "harness-chdir"}
			}
			defer os.Chdir("/")
			_ = os.Mkdir("d", 0o755)
			mo := &model{files: map[string]bool{}, dirs: map[string]bool{"d": true}}
			var hs []string
			for _, i := range hist {
				hs = append(hs, names[i])
			}
			hstr := strings.Join(hs, " ; ")
			var res hsx.Result
			applic := true
			viol := func(cls, what string) {
				if res.Violation == "" {
					res = hsx.Result{Violation: fmt.Sprintf("patterns %q ignore %q; history (tailer polls after every step): %s\n%s", cf.patterns, cf.ignore, hstr, what), VKey: cls + " [" + cf.name + "]: " + hstr}
				}
			}
			var pats []string
			for _, p := range cf.patterns {
				if strings.HasPrefix(p, "ABS:") {
					pats = append(pats, filepath.Join(root, strings.TrimPrefix(p, "ABS:")))
				} else {
					pats = append(pats, p)
				}
			}
			er := hsx.Exec(600000, func() {
				lc0 := tailer.VerifLogCount()
				var opts []tailer.Option
				if cf.ignore != "" {
					opts = append(opts, tailer.IgnoreRegex(cf.ignore))
				}
				t := tlx.Start(pats, opts...)
				if t.Err != nil {
					viol("start", t.Err.Error())
					return
				}
				var wantLines []string
				for i, oi := range hist {
					o := ops[oi]
					if !mo.apply(o) {
						applic = false
						break
					}
					tailedBefore := cf.wantTailed(mo)
					var err error
					switch o.kind {
					case "create":
						err = os.WriteFile(o.f, nil, 0o644)
					case "delete":
						err = os.Remove(o.f)
					case "append":
						line := fmt.Sprintf("line%d", i+1)
						var f *os.File
						f, err = os.OpenFile(o.f, os.O_APPEND|os.O_WRONLY, 0o644)
						if err == nil {
							_, err = f.WriteString(line + "\n")
							f.Close()
						}
						for _, tf := range tailedBefore {
							if tf == o.f {
								wantLines = append(wantLines, filepath.Join(root, o.f)+": "+line)
							}
						}
					case "rename":
						err = os.Rename(o.f, o.g)
					case "mkdir":
						err = os.Mkdir(o.f, 0o755)
					case "rmdir":
						err = os.Remove(o.f)
					}
					if err != nil {
						viol("harness-fs", o.String()+": "+err.Error())
						break
					}
					t.Observe()
					if i < len(hist)-1 {
						continue
					}
					var want []string
					for _, f := range cf.wantTailed(mo) {
						want = append(want, filepath.Join(root, f))
					}
					got := t.T.VerifStreams()
					if strings.Join(got, ",") != strings.Join(want, ",") {
						viol("tailed-set", fmt.Sprintf("paths with a log stream after the poll: %q\nexisting regular files that match a pattern and are not ignored: %q", rel(root, got), rel(root, want)))
						break
					}
					if d := tailer.VerifLogCount() - lc0; d != int64(len(want)) {
						viol("log_count", fmt.Sprintf("log_count moved by %d since start, %d paths are tailed", d, len(want)))
						break
					}
					var gl []string
					for _, l := range t.Lines {
						gl = append(gl, l.File+": "+l.Text)
					}
					if strings.Join(gl, "\n") != strings.Join(wantLines, "\n") {
						viol("lines", fmt.Sprintf("lines delivered: %q\nlines appended to paths while they were tailed: %q", rel(root, gl), rel(root, wantLines)))
						break
					}
				}
				if applic && res.Violation == "" {
					var fs, ds []string
					for f := range mo.files {
						fs = append(fs, f)
					}
					for d := range mo.dirs {
						ds = append(ds, d)
					}
					sort.Strings(fs)
					sort.Strings(ds)
					res.Key = fmt.Sprintf("files=%v dirs=%v tailed=%v lines=%d", fs, ds, rel(root, t.T.VerifStreams()), len(t.Lines)) + " " + hstr
				}
				t.Stop()
			})
			if !applic {
				return hsx.Result{}
			}
			if a := hsx.Anomaly(er); a != "" && res.Violation == "" {
				viol("anomaly "+strings.SplitN(a, "\n", 2)[0], a)
			}
			return res
		},
	}
}

func rel(root string, ps []string) []string {
	var out []string
	for _, p := range ps {
		out = append(out, strings.ReplaceAll(p, root+"/", ""))
	}
	return out
}

func main() {
	hsx.QuietGlog()
	c := vlib.Init("model_checking")
	cfs := []config{
		{"one-glob", []string{"d/*.log"}, ""},
		{"overlapping-globs", []string{"d/*.log", "d/a*"}, ""},
		{"relative+absolute-spelling", []string{"d/*.log", "ABS:d/*.log"}, ""},
		{"nested+flat/ignore-gz", []string{"d/*/*.log", "d/*"}, `\.gz$`},
	}
	if c.Thorough() {
		cfs = append(cfs, config{"overlapping-globs/ignore-gz", []string{"d/*.log", "d/a*"}, `\.gz$`}, config{"literal+glob", []string{"d/a.log", "d/*.log"}, ""})
	}
	var cfgs []hsx.Config
	for _, cf := range cfs {
		cfgs = append(cfgs, mkConfig(c, cf, c.Pick(4, 5)))
	}
	c.Assume = []string{
		"the pattern poller and the streams are woken after every step and the harness waits for quiescence (the property's 'after the next pattern poll')",
		"regular files and directories on tmpfs; unreadable files and symlinks are not generated",
		"no state merging: the line readers' buffers and stream goroutines are not reachable by a state dump, so every applicable history up to the depth bound is executed",
	}
	hsx.Explore(c, "explicit-state BFS over histories of {create, delete, append a unique line, rename (3 pairs), mkdir/rmdir of a plain and of a pattern-matching directory name, poll} on the tree {d/a.log, d/b.log, d/a.log.gz, d/sub/c.log, d/x.log/} for 4 (thorough 6) pattern/ignore configurations (single glob, overlapping globs, relative+absolute spelling of one glob, nested+flat with an ignore regex) through the real Tailer; per transition: the set of paths with a stream equals the set of existing regular files matching a pattern and not ignored, log_count agrees, and every line appended to a tailed path is delivered exactly once", cfgs...)
}
