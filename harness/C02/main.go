// C02 — constant folding never changes results.  Differential: every constant
// expression tree (bounded) in every syntactic position, compiled with and
// without the optimiser, run on the same lines.
package main

import (
	"fmt"
	"math"
	"runtime"
	"strings"

	"github.com/google/mtail/internal/zverif/shared/mt"
	"github.com/google/mtail/internal/zverif/vlib"
)

type node struct {
	lit   string // atom
	isF   bool
	i     int64
	f     float64
	op    string
	l, r  *node
	paren bool
}

func (n *node) String() string {
	if n.op == "" {
		return n.lit
	}
	s := n.l.String() + " " + n.op + " " + n.r.String()
	if n.paren {
		return "(" + s + ")"
	}
	return s
}

type val struct {
	isF bool
	i   int64
	f   float64
	err bool // evaluation hits a zero divisor
}

// eval is used only to decide whether some divisor is, or folds to, zero.
func (n *node) eval(zeroDiv *bool) val {
	if n.op == "" {
		return val{isF: n.isF, i: n.i, f: n.f}
	}
	a, b := n.l.eval(zeroDiv), n.r.eval(zeroDiv)
	if a.err || b.err {
		return val{err: true}
	}
	if n.op == "/" || n.op == "%" {
		if (b.isF && b.f == 0) || (!b.isF && b.i == 0) {
			*zeroDiv = true
			return val{err: true}
		}
	}
	if !a.isF && !b.isF {
		switch n.op {
		case "+":
			return val{i: a.i + b.i}
		case "-":
			return val{i: a.i - b.i}
		case "*":
			return val{i: a.i * b.i}
		case "/":
			return val{i: a.i / b.i}
		case "%":
			return val{i: a.i % b.i}
		case "**":
			return val{i: int64(math.Pow(float64(a.i), float64(b.i)))}
		}
	}
	x, y := a.f, b.f
	if !a.isF {
		x = float64(a.i)
	}
	if !b.isF {
		y = float64(b.i)
	}
	switch n.op {
	case "+":
		return val{isF: true, f: x + y}
	case "-":
		return val{isF: true, f: x - y}
	case "*":
		return val{isF: true, f: x * y}
	case "/":
		return val{isF: true, f: x / y}
	case "%":
		return val{isF: true, f: math.Mod(x, y)}
	default:
		return val{isF: true, f: math.Pow(x, y)}
	}
}

func atomI(i int64) *node             { return &node{lit: fmt.Sprint(i), i: i} }
func atomF(s string, f float64) *node { return &node{lit: s, isF: true, f: f} }

var ops = []string{"+", "-", "*", "/", "%", "**"}

type position struct {
	name string
	tmpl string // %s = expression
}

var positions = []position{
	{"assign", "gauge g\n/^/ {\n  g = %s\n}\n"},
	{"add-assign", "counter c\n/^/ {\n  c += %s\n}\n"},
	{"cmp-left", "counter hit\n/^(\\d+)/ {\n  %s < $1 {\n    hit++\n  }\n}\n"},
	{"cmp-right", "counter hit\n/^(\\d+)/ {\n  $1 >= %s {\n    hit++\n  }\n}\n"},
	{"condition", "counter hit\n%s {\n  hit++\n}\n"},
	{"index", "counter m by k\n/^/ {\n  m[%s]++\n}\n"},
	{"conv-int", "gauge g\n/^/ {\n  g = int(%s)\n}\n"},
	{"conv-float", "gauge g\n/^/ {\n  g = float(%s)\n}\n"},
	{"conv-string", "text t\n/^/ {\n  t = string(%s)\n}\n"},
	{"with-capture-right", "gauge g\n/^(\\d+)/ {\n  g = $1 + %s\n}\n"},
	{"with-capture-left", "gauge g\n/^(\\d+)/ {\n  g = %s * $1\n}\n"},
	{"with-capture-paren", "gauge g\n/^(\\d+)/ {\n  g = (%s) - $1\n}\n"},
	{"settime", "gauge g\n/^/ {\n  settime(%s)\n  g = timestamp()\n}\n"},
	{"concat-with-string-literal", "text t\n/^/ {\n  t = \"n=\" + %s\n}\n"},
	{"concat-with-string-capture", "text t\n/^(\\w+)/ {\n  t = $1 + %s\n}\n"},
	{"compare-with-string-capture", "counter hit\n/^(\\w+)/ {\n  $1 == %s {\n    hit++\n  }\n}\n"},
}

var lines = []string{"5", "x", "0", "1000000", "1000001"}

func run(c *vlib.Ctx, w int, pos position, e *node) {
	src := fmt.Sprintf(pos.tmpl, e.String())
	key := pos.name + ": " + e.String()
	po, errO := mt.Load(fmt.Sprintf("w%d-opt", w), src, mt.Opts{})
	pn, errN := mt.Load(fmt.Sprintf("w%d-noopt", w), src, mt.Opts{NoOpt: true})
	switch {
	case errO != nil && errN != nil:
		c.Eval("")
		return
	case errO != nil && errN == nil:
		zd := false
		e.eval(&zd)
		if !zd {
			c.Report("opt-only-reject position="+pos.name+" reason="+reason(errO), fmt.Sprintf("optimised compile rejects, unoptimised accepts, and no divisor is (or folds to) zero:\n%s\n%v", src, errO), map[string]string{"position": pos.name, "expr": e.String(), "program": src})
		}
		c.Eval("r:" + key)
		return
	case errO == nil && errN != nil:
		c.Report("noopt-only-reject position="+pos.name+" reason="+reason(errN), fmt.Sprintf("unoptimised compile rejects but optimised accepts:\n%s\n%v", src, errN), map[string]string{"position": pos.name, "expr": e.String(), "program": src})
		c.Eval("r:" + key)
		return
	}
	for _, l := range lines {
		eo, _ := po.Line("f", l)
		en, _ := pn.Line("f", l)
		do, dn := po.Dump(false), pn.Dump(false)
		// program names differ by construction; metric dumps do not contain them
		if eo != en || do != dn {
			c.Report("differs "+key, fmt.Sprintf("after line %q: optimised errors=%d store:\n%s\nunoptimised errors=%d store:\n%s\nprogram:\n%s", l, eo, do, en, dn, src),
				map[string]string{"position": pos.name, "expr": e.String(), "program": src, "line": l})
			break
		}
	}
	c.Eval("a:" + key)
}

// reason strips the position prefix from the first compile error.
func reason(err error) string {
	l := strings.SplitN(err.Error(), "\n", 2)[0]
	if i := strings.Index(l, ": "); i >= 0 {
		l = l[i+2:]
	}
	return strings.TrimSpace(l)
}

func main() {
	c := vlib.Init("exploration")
	full := []*node{atomI(0), atomI(1), atomI(2), atomI(3), atomI(-1), atomI(-7), atomI(1000), atomI(1 << 62),
		atomF("0.0", 0), atomF("0.5", 0.5), atomF("2.0", 2), atomF("-1.5", -1.5), atomF("1e308", 1e308)}
	small := []*node{atomI(0), atomI(1), atomI(2), atomI(-7), atomI(1000), atomI(1 << 62), atomF("0.5", 0.5), atomF("-1.5", -1.5), atomF("0.0", 0)}
	d2atoms := small
	if c.Thorough() {
		d2atoms = full
	}
	var trees []*node
	trees = append(trees, full...)
	for _, a := range full {
		for _, o := range ops {
			for _, b := range full {
				trees = append(trees, &node{op: o, l: a, r: b})
			}
		}
	}
	for _, a := range d2atoms {
		for _, o1 := range ops {
			for _, b := range d2atoms {
				for _, o2 := range ops {
					for _, d := range d2atoms {
						trees = append(trees,
							&node{op: o2, l: &node{op: o1, l: a, r: b, paren: true}, r: d},
							&node{op: o1, l: a, r: &node{op: o2, l: b, r: d, paren: true}},
							&node{op: o2, l: &node{op: o1, l: a, r: b}, r: d}) // unparenthesised: a o1 b o2 d as the grammar reads it
					}
				}
			}
		}
	}
	type job struct {
		p position
		e *node
	}
	var jobs []job
	for _, t := range trees {
		for _, p := range positions {
			jobs = append(jobs, job{p, t})
		}
	}
	vlib.ParallelW(len(jobs), runtime.NumCPU(), func(w, i int) {
		run(c, w, jobs[i].p, jobs[i].e)
		if i%50021 == 11 {
			c.Sample(map[string]string{"position": jobs[i].p.name, "expr": jobs[i].e.String(), "lines": strings.Join(lines, ",")})
		}
	})
	c.Set("trees", len(trees))
	c.Set("positions", len(positions))
	c.Finish("all constant expression trees of depth<=1 over 13 int/float atoms and {+,-,*,/,%,**}, plus all depth-2 trees (left-nested, right-nested, unparenthesised) over the reduced (quick) / full (thorough) atom set, each in 16 syntactic positions; compiled with and without the optimiser and run on lines {5,x,0,1000000,1000001}; stores compared bit-exactly and runtime-error counts per line. distinct_nontrivial = distinct (position, expression) pairs accepted by at least one compile")
}
