// C24 — invalid programs are rejected with a positioned error.
// Every single-site mutant (ten defect kinds, engine/mtl/mutate.go) of the
// well-typed programs of the C01 families: the compiler must return errors,
// at least one with a position inside the source, and the program loader must
// refuse it (no VM, prog_load_errors_total +1).
package main

import (
	"expvar"
	"fmt"
	"regexp"
	"runtime"
	"strconv"
	"strings"
	"sync"

	"github.com/google/mtail/internal/logline"
	"github.com/google/mtail/internal/metrics"
	mrt "github.com/google/mtail/internal/runtime"
	"github.com/google/mtail/internal/zverif/mtl"
	"github.com/google/mtail/internal/zverif/shared/mt"
	"github.com/google/mtail/internal/zverif/vlib"
)

var posRe = regexp.MustCompile(`(?m)^([^:\n]*):(\d+):(\d+)(?:-(\d+))?: `)

// positioned reports whether some error of the list carries a position inside src.
func positioned(errText, name, src string) (bool, string) {
	lines := strings.Split(src, "\n")
	n := len(lines)
	if n > 0 && lines[n-1] == "" {
		n--
	}
	ms := posRe.FindAllStringSubmatch(errText, -1)
	if len(ms) == 0 {
		return false, "no error carries a position"
	}
	why := ""
	for _, m := range ms {
		l, _ := strconv.Atoi(m[2])
		c, _ := strconv.Atoi(m[3])
		switch {
		case m[1] != name:
			why = fmt.Sprintf("position names file %q", m[1])
		case l < 1 || l > n:
			why = fmt.Sprintf("line %d is outside the %d source lines", l, n)
		case c < 1 || c > len(lines[l-1])+1:
			why = fmt.Sprintf("column %d is outside line %d (%d bytes)", c, l, len(lines[l-1]))
		default:
			return true, ""
		}
	}
	return false, why
}

func mapVal(m *expvar.Map, key string) int64 {
	if v, ok := m.Get(key).(*expvar.Int); ok {
		return v.Value()
	}
	return 0
}

type loader struct {
	rt    *mrt.Runtime
	name  string
	lines chan *logline.LogLine
}

func newLoader(w int) *loader {
	l := &loader{name: fmt.Sprintf("w%d.mtail", w), lines: make(chan *logline.LogLine)}
	var wg sync.WaitGroup
	rt, err := mrt.New(l.lines, &wg, "", metrics.NewStore())
	if err != nil {
		panic(err)
	}
	l.rt = rt
	return l
}

func main() {
	c := vlib.Init("exploration")
	cases := mtl.All(c.Thorough())
	// quick: a slice fixed by construction — every k-th program of every family, at least 12 per family
	perFam := map[string][]mtl.Case{}
	var order []string
	for _, cs := range cases {
		if _, ok := perFam[cs.Family]; !ok {
			order = append(order, cs.Family)
		}
		perFam[cs.Family] = append(perFam[cs.Family], cs)
	}
	var bases []mtl.Case
	for _, f := range order {
		l := perFam[f]
		step := 1
		if c.Quick() && len(l) > 40 {
			step = len(l) / 40
		}
		for i := 0; i < len(l); i += step {
			bases = append(bases, l[i])
		}
	}
	nw := runtime.NumCPU()
	loaders := make([]*loader, nw)
	for i := range loaders {
		loaders[i] = newLoader(i)
	}
	kinds := map[string]int{}
	var mu sync.Mutex
	vlib.ParallelW(len(bases), nw, func(w, i int) {
		base := bases[i]
		ld := loaders[w]
		if _, err := mt.Compile(ld.name, base.P.String(), mt.Opts{}); err != nil {
			return // not a valid base (reported by C01)
		}
		for _, m := range mtl.Mutants(base.P) {
			src := m.P.String()
			mu.Lock()
			kinds[m.Kind]++
			mu.Unlock()
			rep := map[string]string{"defect": m.String(), "family": base.Family, "program": src, "base": base.P.String()}
			obj, err := mt.Compile(ld.name, src, mt.Opts{})
			c.Eval(m.Kind + ":" + src)
			if err == nil || obj != nil {
				c.Report("accepted ["+m.Kind+"] "+src, fmt.Sprintf("defect %s (site %d) introduced into a %s program, but the compiler accepts it:\n%s", m.Kind, m.Site, base.Family, src), rep)
				continue
			}
			if ok, why := positioned(err.Error(), ld.name, src); !ok {
				c.Report("unpositioned ["+m.Kind+"] "+src, fmt.Sprintf("defect %s: rejected, but %s:\n%s\nerrors:\n%s", m.Kind, why, src, err), rep)
				continue
			}
			// the same program saved with CR LF line ends: still rejected, still positioned inside the source
			crlf := strings.ReplaceAll(src, "\n", "\r\n")
			if obj2, err2 := mt.Compile(ld.name, crlf, mt.Opts{}); err2 == nil || obj2 != nil {
				c.Report("accepted-crlf ["+m.Kind+"] "+src, fmt.Sprintf("defect %s: rejected with LF line ends but accepted with CR LF line ends:\n%s", m.Kind, src), rep)
			} else if ok, why := positioned(err2.Error(), ld.name, crlf); !ok {
				c.Report("unpositioned-crlf ["+m.Kind+"] "+src, fmt.Sprintf("defect %s, program saved with CR LF line ends: rejected, but %s:\n%s\nerrors:\n%s", m.Kind, why, src, err2), rep)
			}
			// the loader must refuse it too
			before := mapVal(mrt.ProgLoadErrors, ld.name)
			lerr := ld.rt.CompileAndRun(ld.name, strings.NewReader(src))
			after := mapVal(mrt.ProgLoadErrors, ld.name)
			if lerr == nil || len(ld.rt.VerifHandles()) != 0 || after-before != 1 {
				c.Report("loaded ["+m.Kind+"] "+src, fmt.Sprintf("defect %s: the program loader returned err=%v, runs %d programs, prog_load_errors_total moved by %d:\n%s", m.Kind, lerr, len(ld.rt.VerifHandles()), after-before, src), rep)
			}
		}
		if i%53 == 7 {
			ms := mtl.Mutants(base.P)
			if len(ms) > 0 {
				c.Sample(map[string]string{"family": base.Family, "defect": ms[len(ms)/2].String(), "program": ms[len(ms)/2].P.String()})
			}
		}
	})
	c.Set("base_programs", len(bases))
	c.Set("mutants_per_defect_kind", kinds)
	c.Assume = []string{"base programs are the accepted programs of the C01 families (quick: every k-th of each family, a slice fixed by construction; thorough: all)", "a position lies inside the source when its file name is the program's, 1 <= line <= number of lines and 1 <= column <= line length + 1"}
	c.Finish("every single-site mutant of the base programs for the defect kinds {undeclared metric, capture index too high, unknown capture name, capture used in a sibling block, undefined decorator, next outside a decorator, one index key too many / too few, redeclared name, unused declaration, invalid regular expression, regular expression over the length limit, integer division / modulus by the literal 0}: Compile returns errors and no code, at least one error position lies inside the source (also when the program is saved with CR LF line ends), and Runtime.CompileAndRun refuses the program (error returned, no VM, prog_load_errors_total +1); distinct_nontrivial = distinct mutants")
}
