// C12 (push part) — no export attempt can leave metrics locked or stall
// processing: the push exporter (Exporter.PushMetrics: dial, deadline, write,
// close) against every behaviour of the collector on real kernel sockets — no
// listener, a listener that closes each connection at once, one that reads a
// little and then stops reading, one that never reads, one that reads
// everything — for the stream-socket formats (graphite over tcp, collectd
// over a unix socket), with a store larger than any socket buffer.  After the
// attempt: it has returned (bounded by the write deadline), every metric and
// both store locks can be taken, a find-or-create on the metric and a varz
// export complete.
package main

import (
	"context"
	"flag"
	"fmt"
	"io"
	"net"
	"net/http/httptest"
	"os"
	"path/filepath"
	"strings"
	"time"

	"github.com/google/mtail/internal/exporter"
	"github.com/google/mtail/internal/metrics"
	"github.com/google/mtail/internal/metrics/datum"
	"github.com/google/mtail/internal/zverif/vlib"
)

// guard: a push must give up after the write deadline (300 ms here); the guard is two orders of magnitude above it
const guard = 30 * time.Second

func bigStore(n int) (*metrics.Store, *metrics.Metric) {
	st := metrics.NewStore()
	m := metrics.NewMetric("big", "prog", metrics.Counter, metrics.Int, "k")
	pad := strings.Repeat("x", 180)
	ts := time.Now()
	for i := 0; i < n; i++ {
		d, _ := m.GetDatum(fmt.Sprintf("%s%06d", pad, i))
		datum.SetInt(d, int64(i), ts)
	}
	_ = st.Add(m)
	return st, m
}

type peer struct {
	name string
	// serve handles one accepted connection; nil means there is no listener at all
	serve func(c net.Conn, stop <-chan struct{})
}

var peers = []peer{
	{"no-listener", nil},
	{"closes-at-once", func(c net.Conn, stop <-chan struct{}) { c.Close() }},
	{"reads-a-little-then-stalls", func(c net.Conn, stop <-chan struct{}) {
		b := make([]byte, 4096)
		_, _ = c.Read(b)
		<-stop
		c.Close()
	}},
	{"never-reads", func(c net.Conn, stop <-chan struct{}) { <-stop; c.Close() }},
	{"reads-everything", func(c net.Conn, stop <-chan struct{}) { _, _ = io.Copy(io.Discard, c); c.Close() }},
}

func main() {
	c := vlib.Init("fault_enumeration")
	dir, err := os.MkdirTemp("/dev/shm", "c12p.")
	if err != nil {
		fmt.Println("ENGINE-ERROR", err)
		os.Exit(2)
	}
	_ = flag.Set("metric_push_write_deadline", "300ms")
	seq := 0
	for _, format := range []string{"graphite", "collectd"} {
		for _, p := range peers {
			seq++
			ident := format + " collector " + p.name
			rep := map[string]string{"format": format, "collector": p.name}
			_ = flag.Set("graphite_host_port", "")
			_ = flag.Set("collectd_socketpath", "")
			network, addr := "tcp", "127.0.0.1:0"
			if format == "collectd" {
				network, addr = "unix", filepath.Join(dir, fmt.Sprintf("sock%d", seq))
			}
			stop := make(chan struct{})
			var ln net.Listener
			if p.serve != nil {
				ln, err = net.Listen(network, addr)
				if err != nil {
					c.CapHit("cannot listen: " + err.Error())
					continue
				}
				addr = ln.Addr().String()
				go func(serve func(net.Conn, <-chan struct{})) {
					for {
						conn, err := ln.Accept()
						if err != nil {
							return
						}
						go serve(conn, stop)
					}
				}(p.serve)
			} else if network == "tcp" {
				// a port nobody listens on
				l, _ := net.Listen("tcp", "127.0.0.1:0")
				addr = l.Addr().String()
				l.Close()
			}
			if format == "graphite" {
				_ = flag.Set("graphite_host_port", addr)
			} else {
				_ = flag.Set("collectd_socketpath", addr)
			}
			st, m := bigStore(40000) // about 8 MB of output
			ctx, cancel := context.WithCancel(context.Background())
			e, err := exporter.New(ctx, st, exporter.Hostname("h"), exporter.PushInterval(time.Hour))
			if err != nil {
				c.CapHit("exporter.New: " + err.Error())
				cancel()
				continue
			}
			done := make(chan struct{})
			t0 := time.Now()
			go func() { e.PushMetrics(); close(done) }()
			returned := true
			select {
			case <-done:
			case <-time.After(guard):
				returned = false
			}
			c.Eval(ident)
			if !returned {
				c.Report("push-stalled "+ident, fmt.Sprintf("%s: PushMetrics has not returned %v after it started (write deadline 300 ms)", ident, guard), rep)
			}
			// whatever happened, the store must be usable
			if !m.TryLock() {
				c.Report("metric-locked "+ident, fmt.Sprintf("%s: the metric is still locked after the push attempt (%v after it started)", ident, time.Since(t0)), rep)
			} else {
				m.Unlock()
			}
			if !st.VerifStoreLocksFree() {
				c.Report("store-locked "+ident, ident+": a store lock is still held after the push attempt", rep)
			}
			if returned {
				ok := make(chan struct{})
				go func() {
					d, _ := m.GetDatum("new-label")
					datum.IncIntBy(d, 1, time.Now())
					r := httptest.NewRecorder()
					e.HandleVarz(r, httptest.NewRequest("GET", "/varz", nil))
					close(ok)
				}()
				select {
				case <-ok:
				case <-time.After(guard):
					c.Report("processing-stalled "+ident, ident+": a find-or-create on the metric and a varz export do not complete after the push attempt", rep)
				}
			}
			close(stop)
			if ln != nil {
				ln.Close()
			}
			cancel()
			c.Sample(map[string]string{"format": format, "collector": p.name, "push_took": time.Since(t0).Round(time.Millisecond).String()})
		}
	}
	os.RemoveAll(dir)
	c.Set("scenarios", seq)
	c.Assume = []string{"real kernel sockets; the only clock-based judgement is that a push with a 300 ms write deadline has returned within 30 s"}
	c.Finish("Exporter.PushMetrics (graphite over tcp, collectd over a unix socket; about 8 MB of output) against a collector that is absent, closes each connection at once, reads a little and stalls, never reads, or reads everything: the attempt returns, all locks are free, find-or-create and a varz export complete afterwards")
}
