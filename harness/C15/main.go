// C15 — line framing is independent of how bytes arrive.
//
// Exhaustive small-scope enumeration: every byte string up to length n over
// {\n, \r, a, 0xC3, 0xA9} × every composition of its length into read sizes
// (optionally one zero-length read at each position, optionally the last chunk
// delivered together with io.EOF) × every small buffer size, through the real
// LineReader.ReadAndSend/Finish, compared with bytes.Split semantics.
package main

import (
	"bytes"
	"context"
	"fmt"
	"io"
	"runtime"
	"strings"
	"sync/atomic"
	"time"

	"github.com/google/mtail/internal/logline"
	"github.com/google/mtail/internal/tailer/logstream"
	"github.com/google/mtail/internal/zverif/vlib"
)

var alphabet = []byte{'\n', '\r', 'a', 0xC3, 0xA9}

type scripted struct {
	chunks  [][]byte
	i       int
	eofWith bool // deliver io.EOF together with the last data
}

func (s *scripted) Read(p []byte) (int, error) {
	if s.i >= len(s.chunks) {
		return 0, io.EOF
	}
	c := s.chunks[s.i]
	n := copy(p, c)
	if n < len(c) {
		s.chunks[s.i] = c[n:]
	} else {
		s.i++
	}
	if s.eofWith && s.i >= len(s.chunks) {
		return n, io.EOF
	}
	return n, nil
}

func expected(stream []byte) []string {
	var out []string
	parts := bytes.Split(stream, []byte{'\n'})
	for i, p := range parts {
		if i == len(parts)-1 {
			if len(p) > 0 {
				out = append(out, string(p))
			}
			break
		}
		if len(p) > 0 && p[len(p)-1] == '\r' {
			p = p[:len(p)-1]
		}
		out = append(out, string(p))
	}
	return out
}

type cas struct {
	Stream  string `json:"stream"`
	Chunks  []int  `json:"chunks"`
	Buf     int    `json:"bufsize"`
	EOFWith bool   `json:"eof_with_last_chunk"`
}

func runCase(stream []byte, sizes []int, bufsize int, eofWith bool) (got []string, panicked interface{}) {
	defer func() {
		if r := recover(); r != nil {
			panicked = r
		}
	}()
	var chunks [][]byte
	off := 0
	for _, s := range sizes {
		chunks = append(chunks, append([]byte{}, stream[off:off+s]...))
		off += s
	}
	lines := make(chan *logline.LogLine, len(stream)+2)
	rd := &scripted{chunks: chunks, eofWith: eofWith}
	lr := logstream.NewLineReader("src", lines, rd, bufsize, func() {})
	ctx := context.Background()
	for iter := 0; ; iter++ {
		n, err := lr.ReadAndSend(ctx)
		if err == io.EOF {
			break
		}
		if err != nil {
			panic(err)
		}
		_ = n
		if iter > 4*len(stream)+8 {
			panic("reader does not make progress")
		}
	}
	lr.Finish(ctx)
	lr.VerifStopTimer()
	close(lines)
	for l := range lines {
		got = append(got, l.Line)
	}
	return
}

func eq(a, b []string) bool {
	if len(a) != len(b) {
		return false
	}
	for i := range a {
		if a[i] != b[i] {
			return false
		}
	}
	return true
}

func main() {
	c := vlib.Init("exploration")
	maxLen := c.Pick(6, 8)
	bufs := []int{1, 2, 3, 4, 8}
	zeroReads := c.Thorough()

	// enumerate streams
	var streams [][]byte
	var gen func(cur []byte, n int)
	gen = func(cur []byte, n int) {
		if len(cur) == n {
			streams = append(streams, append([]byte{}, cur...))
			return
		}
		for _, b := range alphabet {
			gen(append(cur, b), n)
		}
	}
	for n := 0; n <= maxLen; n++ {
		gen(nil, n)
	}
	deadline := c.Deadline(5*time.Minute, 30*time.Minute)
	var skipped int64
	vlib.Parallel(len(streams), runtime.NumCPU(), func(si int) {
		if time.Now().After(deadline) {
			atomic.AddInt64(&skipped, 1)
			return
		}
		stream := streams[si]
		want := expected(stream)
		n := len(stream)
		nontrivial := bytes.IndexByte(stream, '\n') >= 0 && n >= 2
		var local int64
		ncomp := 1
		if n > 1 {
			ncomp = 1 << (n - 1)
		}
		for mask := 0; mask < ncomp; mask++ {
			var sizes []int
			cur := 1
			for i := 0; i < n-1; i++ {
				if mask&(1<<i) != 0 {
					sizes = append(sizes, cur)
					cur = 1
				} else {
					cur++
				}
			}
			if n > 0 {
				sizes = append(sizes, cur)
			}
			variants := [][]int{sizes}
			if zeroReads && n <= 6 {
				for p := 0; p <= len(sizes); p++ {
					v := append(append(append([]int{}, sizes[:p]...), 0), sizes[p:]...)
					variants = append(variants, v)
				}
			}
			for _, v := range variants {
				for _, bs := range bufs {
					for _, ew := range []bool{false, true} {
						if ew && (n == 0 || v[len(v)-1] == 0) {
							continue
						}
						if ew && !zeroReads && mask%4 != 0 {
							// quick tier: EOF-with-data on a quarter of the chunkings
							continue
						}
						got, p := runCase(stream, v, bs, ew)
						local++
						if p != nil || !eq(got, want) {
							key := fmt.Sprintf("stream=%q", stream)
							c.Report(key, fmt.Sprintf("stream %q chunks %v buf %d eofWith=%v: got %q want %q panic=%v", stream, v, bs, ew, got, want, p),
								cas{string(stream), v, bs, ew})
						}
					}
				}
			}
		}
		c.AddEvals(local - 1)
		if nontrivial {
			c.Eval("s:" + string(stream))
		} else {
			c.Eval("")
		}
		if si%4001 == 17 {
			c.Sample(map[string]interface{}{"stream": fmt.Sprintf("%q", stream), "expected_lines": want, "chunkings": ncomp, "bufsizes": bufs})
		}
	})
	if skipped > 0 {
		c.CapHit(fmt.Sprintf("deadline: %d of the %d streams (the longest ones, enumerated last) were not run", skipped, len(streams)))
	}
	c.Set("streams", len(streams))
	c.Set("max_stream_len", maxLen)
	c.Set("alphabet", strings.Join([]string{`\n`, `\r`, `a`, `0xC3`, `0xA9`}, " "))
	c.Assume = []string{"the LineReader is driven single-threaded with a buffered output channel; concurrency of the consumer is covered by C16/C19", "time.AfterFunc(24h) stale timers never fire during the run"}
	c.Finish("all byte strings up to max_stream_len over the alphabet × all compositions into read sizes (thorough: plus one zero-length read at every position, for streams of length <= 6) × bufsizes {1,2,3,4,8} × EOF separate/with last chunk; distinct_nontrivial = distinct streams of length>=2 containing a newline")
}
