// C03 — the compiler terminates on any source text and never crashes.
package main

import (
	"fmt"
	"os"
	"path/filepath"
	"regexp"
	"runtime"
	"sort"
	"strings"
	"sync"
	"sync/atomic"
	"time"

	"github.com/google/mtail/internal/runtime/code"
	"github.com/google/mtail/internal/zverif/shared/mt"
	"github.com/google/mtail/internal/zverif/vlib"
)

func objString(o *code.Object) string {
	var b strings.Builder
	for _, in := range o.Program {
		fmt.Fprintf(&b, "%d %v %d\n", in.Opcode, in.Operand, in.SourceLine)
	}
	for _, s := range o.Strings {
		fmt.Fprintf(&b, "S %q\n", s)
	}
	for _, r := range o.Regexps {
		fmt.Fprintf(&b, "R %q\n", r.String())
	}
	for _, m := range o.Metrics {
		fmt.Fprintf(&b, "M %s %s %v %v %q hidden=%v limit=%d src=%s buckets=%v n=%d\n", m.Name, m.Program, m.Kind, m.Type, m.Keys, m.Hidden, m.Limit, m.Source, m.Buckets, len(m.LabelValues))
	}
	return b.String()
}

type slot struct {
	mu    sync.Mutex
	src   string
	start time.Time
}

var slots []*slot
var accepted, rejected int64

func compileOnce(src string) (o *code.Object, err error, pan interface{}) {
	defer func() {
		if r := recover(); r != nil {
			pan = r
		}
	}()
	o, err = mt.Compile("prog.mtail", src, mt.Opts{})
	return
}

func trunc(s string) string {
	if len(s) > 160 {
		return fmt.Sprintf("%q…(%d bytes)", s[:160], len(s))
	}
	return fmt.Sprintf("%q", s)
}

func check(c *vlib.Ctx, w int, family, src string) {
	s := slots[w]
	s.mu.Lock()
	s.src, s.start = src, time.Now()
	s.mu.Unlock()
	defer func() {
		s.mu.Lock()
		s.src = ""
		s.mu.Unlock()
	}()
	o, err, pan := compileOnce(src)
	rep := map[string]string{"family": family, "source": src}
	switch {
	case pan != nil:
		c.Report("panic "+trunc(src), fmt.Sprintf("compiler panicked on %s: %v", trunc(src), pan), rep)
	case o != nil && err != nil:
		c.Report("both "+trunc(src), fmt.Sprintf("compiler returned code AND errors for %s: %v", trunc(src), err), rep)
	case o == nil && err == nil:
		c.Report("neither "+trunc(src), "compiler returned neither code nor errors for "+trunc(src), rep)
	case o == nil && strings.TrimSpace(err.Error()) == "":
		c.Report("empty-errors "+trunc(src), "compiler returned an empty error list for "+trunc(src), rep)
	}
	if o != nil && pan == nil {
		atomic.AddInt64(&accepted, 1)
		o2, err2, pan2 := compileOnce(src)
		if pan2 != nil || err2 != nil || o2 == nil || objString(o) != objString(o2) {
			c.Report("nondeterministic "+trunc(src), fmt.Sprintf("second compile of %s differs (err=%v panic=%v)", trunc(src), err2, pan2), rep)
		}
		c.Eval(family + ":" + src)
	} else {
		atomic.AddInt64(&rejected, 1)
		c.Eval("")
	}
}

func watchdog(c *vlib.Ctx, rule string) {
	for {
		time.Sleep(2 * time.Second)
		for _, s := range slots {
			s.mu.Lock()
			src, st := s.src, s.start
			s.mu.Unlock()
			if src != "" && time.Since(st) > 30*time.Second {
				done := make(chan struct{})
				go func() { compileOnce(src); close(done) }()
				select {
				case <-done:
					// the first attempt may merely be starved; keep waiting for it
					if time.Since(st) > 120*time.Second {
						c.Report("hang "+trunc(src), "compile did not finish within 120 s (a second attempt did finish)", map[string]string{"source": src})
						c.CapHit("aborted after a hung compile")
						c.Finish(rule)
					}
				case <-time.After(30 * time.Second):
					c.Report("hang "+trunc(src), "compile did not finish within 30 s on two attempts", map[string]string{"source": src})
					c.CapHit("aborted after a hung compile")
					c.Finish(rule)
				}
			}
		}
	}
}

var tokRe = regexp.MustCompile(`"(?:[^"\\\n]|\\.)*"|/(?:[^/\\\n]|\\.)+/|[A-Za-z_$@][A-Za-z0-9_.]*|\d+(?:\.\d+)?[smhd]?|\*\*|\+\+|--|\+=|<=|>=|==|!=|=~|!~|&&|\|\||<<|>>|\n|[^\sA-Za-z0-9]`)

func main() {
	c := vlib.Init("exploration")
	rule := "families: (1) all byte strings of length<=2; (2) all token sequences of length<=3 (thorough 4) over a 60-token alphabet; (3) every prefix and single-token deletion (thorough: also duplication and 4 replacements) of every example program and test program corpus; (4) nesting families across the recursion limit and regex-length families across 1024; unterminated strings/regexes; (5) well-formed statements in context: every binary operator between every pair of 14 atoms (constants of each type, typed captures, metrics, pattern constants), unary forms, all constant-only depth-2 trees over 6 constants and 11 arithmetic/bitwise operators, every builtin with 0-3 arguments from the atoms; (6) pattern constants doubling per line (allocation growth). Each input: no panic, exactly one of {code, non-empty errors}, finishes, second compile identical. distinct_nontrivial = distinct inputs the compiler accepted"
	nw := runtime.NumCPU()
	for i := 0; i < nw; i++ {
		slots = append(slots, &slot{})
	}
	go watchdog(c, rule)
	var inputs []struct{ fam, src string }
	add := func(f, s string) { inputs = append(inputs, struct{ fam, src string }{f, s}) }

	// (1) all byte strings of length <= 2
	add("bytes", "")
	for a := 0; a < 256; a++ {
		add("bytes", string([]byte{byte(a)}))
		for b := 0; b < 256; b++ {
			add("bytes", string([]byte{byte(a), byte(b)}))
		}
	}
	// (2) token sequences
	toks := []string{"counter", "gauge", "timer", "text", "histogram", "hidden", "by", "as", "buckets", "limit", "const", "def", "del", "after", "next", "otherwise", "else", "stop",
		"foo", "strptime", "timestamp", "len", "$1", "$name", "\"str\"", "/re(\\d+)/", "1", "2.5", "5s", "@deco",
		"{", "}", "(", ")", "[", "]", ",", "\n", "+", "-", "*", "/", "%", "**", "++", "--", "+=", "=", "<", ">=", "==", "!=", "=~", "!~", "&&", "||", "&", "|", "^", "~", "<<"}
	maxTok := c.Pick(3, 4)
	var gen func(cur []string)
	gen = func(cur []string) {
		if len(cur) > 0 {
			add("tokens", strings.Join(cur, " ")+"\n")
		}
		if len(cur) == maxTok {
			return
		}
		for _, t := range toks {
			gen(append(cur, t))
		}
	}
	gen(nil)
	// (3) corpus edits
	repo := os.Getenv("VERIF_REPO")
	if repo == "" {
		repo = "/repo"
	}
	files, _ := filepath.Glob(filepath.Join(repo, "examples", "*.mtail"))
	sort.Strings(files)
	corpus := 0
	for _, f := range files {
		b, err := os.ReadFile(f)
		if err != nil {
			continue
		}
		src := string(b)
		corpus++
		add("corpus", src)
		step := 1
		if c.Quick() && len(src) > 1500 {
			step = 7
		}
		for i := 0; i < len(src); i += step {
			add("prefix:"+filepath.Base(f), src[:i])
		}
		locs := tokRe.FindAllStringIndex(src, -1)
		tstep := 1
		if c.Quick() && len(locs) > 400 {
			tstep = 3
		}
		for k := 0; k < len(locs); k += tstep {
			l := locs[k]
			add("tokdel:"+filepath.Base(f), src[:l[0]]+src[l[1]:])
			if c.Thorough() {
				add("tokdup:"+filepath.Base(f), src[:l[1]]+" "+src[l[0]:])
				for _, r := range []string{"{", "}", "/", "\""} {
					add("tokrep:"+filepath.Base(f), src[:l[0]]+r+src[l[1]:])
				}
			}
		}
	}
	// (4) nesting / length families
	for n := 1; n <= 300; n++ {
		add("nest-paren", "gauge g\n/x/ {\n  g = "+strings.Repeat("(", n)+"1"+strings.Repeat(")", n)+"\n}\n")
		add("nest-block", strings.Repeat("/a/ {\n", n)+strings.Repeat("}\n", n))
		add("nest-plus", "gauge g\n/x/ {\n  g = 1"+strings.Repeat(" + 1", n)+"\n}\n")
		add("nest-neg", "gauge g\n/(\\d+)/ {\n  g = "+strings.Repeat("~", n)+"$1\n}\n")
		add("nest-else", "counter c\n"+strings.Repeat("/a/ {\n  c++\n} else {\n", n)+strings.Repeat("}\n", n))
		add("nest-index", "counter c by a\n/x/ {\n  c"+strings.Repeat("[\"k\"]", n)+"++\n}\n")
	}
	for n := 1000; n <= 1100; n++ {
		if c.Quick() && n%10 != 0 && (n < 1018 || n > 1030) {
			continue
		}
		add("regex-len", "/"+strings.Repeat("a", n)+"/ {\n}\n")
		add("regex-len-concat", "const A /"+strings.Repeat("a", n/2)+"/\n/b/ + A + A {\n}\n")
	}
	for n := 0; n <= 8; n++ {
		add("unterminated", "text t\n/x/ {\n  t = \""+strings.Repeat("a", n))
		add("unterminated", "/"+strings.Repeat("a", n))
		add("unterminated", "/"+strings.Repeat("a", n)+"\n")
		add("unterminated", "text t\n/x/ {\n  t = \""+strings.Repeat("\\", n))
	}
	// (5) well-formed statements in context: every binary operator between every pair of atoms (constants
	// of each type, typed captures, metrics, pattern constants), constant-only depth-2 trees (the folder's
	// domain), every builtin with 0-3 arguments from the atom set; declarations are generated on demand so
	// that the checker does not stop at an unused symbol and the optimiser and code generator are reached.
	{
		atoms := []string{"0", "1", "-1", "2", "64", "1.5", "\"s\"", "$1", "$2", "$3", "g", "t", "A", "/x/"}
		consts := []string{"1", "-1", "2", "70", "1.5", "0"}
		ops := []string{"+", "-", "*", "/", "%", "**", "<<", ">>", "&", "|", "^", "<", "<=", ">", ">=", "==", "!=", "&&", "||", "=~", "!~"}
		wrap := func(fam, stmt string) {
			var decl strings.Builder
			has := func(id string) bool {
				return regexp.MustCompile(`(^|[^A-Za-z0-9_$"])` + id + `($|[^A-Za-z0-9_"])`).MatchString(stmt)
			}
			if has("c") {
				decl.WriteString("counter c\n")
			}
			if has("g") {
				decl.WriteString("gauge g\n")
			}
			if has("t") {
				decl.WriteString("text t\n")
			}
			if has("d") {
				decl.WriteString("counter d by k\n")
			}
			if has("A") {
				decl.WriteString("const A /a/\n")
			}
			add(fam, decl.String()+"/^(\\S+) (\\d+) (\\d+\\.\\d+)$/ {\n  "+stmt+"\n}\n")
		}
		ctxs := []string{"g = %s", "%s {\n  }", "d[%s]++", "t = %s", "c += %s"}
		if c.Quick() {
			ctxs = ctxs[:3]
		}
		for _, x := range atoms {
			for _, y := range atoms {
				for _, o := range ops {
					for _, cx := range ctxs {
						wrap("binary-in-context", fmt.Sprintf(cx, x+" "+o+" "+y))
					}
				}
			}
			for _, cx := range ctxs {
				wrap("unary-in-context", fmt.Sprintf(cx, "~"+x))
				wrap("unary-in-context", fmt.Sprintf(cx, "~ ("+x+" > 1)"))
			}
		}
		for _, x := range consts {
			for _, y := range consts {
				for _, z := range consts {
					for _, o1 := range ops[:11] {
						for _, o2 := range ops[:11] {
							wrap("const-tree", "g = ("+x+" "+o1+" "+y+") "+o2+" "+z)
							if c.Thorough() {
								wrap("const-tree", "g = "+x+" "+o1+" ("+y+" "+o2+" "+z+")")
								wrap("const-tree", "("+x+" "+o1+" "+y+") "+o2+" "+z+" > 0 {\n  }")
							}
						}
					}
				}
			}
		}
		args := append(append([]string{}, atoms...), "A + \"b\"", "\"b\" + A", "$1 + \"b\"")
		builtins := []string{"strptime", "timestamp", "len", "tolower", "settime", "getfilename", "int", "float", "string", "strtol", "subst"}
		for _, f := range builtins {
			var calls []string
			calls = append(calls, f+"()")
			for _, a := range args {
				calls = append(calls, f+"("+a+")")
				for _, b := range args {
					calls = append(calls, f+"("+a+", "+b+")")
					if f == "subst" || f == "strptime" || c.Thorough() {
						for _, d := range args {
							calls = append(calls, f+"("+a+", "+b+", "+d+")")
						}
					}
				}
			}
			for _, call := range calls {
				wrap("builtin-call", "g = "+call)
				wrap("builtin-call", "t = "+call)
				wrap("builtin-call", call)
			}
		}
	}
	// (6) resource growth: pattern constants that double per line.  Measured sequentially (allocation
	// volume, not time): compiling n lines must not cost exponentially more than compiling n/2 lines.
	{
		mk := func(n int) string {
			var b strings.Builder
			b.WriteString("const A0 /x/\n")
			for i := 1; i <= n; i++ {
				fmt.Fprintf(&b, "const A%d /x/ + A%d + A%d\n", i, i-1, i-1)
			}
			return b.String()
		}
		alloc := func(src string) uint64 {
			var m0, m1 runtime.MemStats
			runtime.GC()
			runtime.ReadMemStats(&m0)
			compileOnce(src)
			runtime.ReadMemStats(&m1)
			return m1.TotalAlloc - m0.TotalAlloc
		}
		use := func(n int) string { return mk(n) + fmt.Sprintf("/y/ + A%d {\n}\n", n) }
		a10, a20 := alloc(use(10)), alloc(use(20))
		c.Set("const_doubling_alloc_bytes", map[string]uint64{"10_lines": a10, "20_lines": a20})
		c.Eval("const-doubling")
		if a20 > 40*a10 {
			c.Report("superlinear const-doubling", fmt.Sprintf("compiling 20 lines of pattern constants that each concatenate the previous one twice allocates %d bytes, %d times the %d bytes of the 10-line version: the expansion doubles per line (about 30 lines exhaust memory) before the pattern length limit applies", a20, a20/a10, a10), map[string]string{"source": use(20)})
		}
		for n := 1; n <= 14; n++ {
			add("const-doubling", mk(n))
			add("const-doubling", mk(n)+fmt.Sprintf("/y/ + A%d {\n}\n", n))
		}
	}
	vlib.ParallelW(len(inputs), nw, func(w, i int) {
		check(c, w, inputs[i].fam, inputs[i].src)
		if i%70001 == 5 || (inputs[i].fam == "nest-else" && strings.Count(inputs[i].src, "else") == 3) {
			c.Sample(map[string]string{"family": inputs[i].fam, "source": trunc(inputs[i].src)})
		}
	})
	c.Set("inputs", len(inputs))
	c.Set("accepted", atomic.LoadInt64(&accepted))
	c.Set("rejected", atomic.LoadInt64(&rejected))
	c.Set("corpus_files", corpus)
	c.Assume = []string{"termination is judged with a 30 s watchdog applied twice to the same input; nothing shorter is ever treated as a hang"}
	c.Finish(rule)
}
