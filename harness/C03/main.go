// C03 — the compiler terminates on any source text and never crashes.
package main

import (
	"bufio"
	"encoding/binary"
	"encoding/json"
	"fmt"
	"os"
	"os/exec"
	"path/filepath"
	"regexp"
	"runtime"
	"runtime/debug"
	"sort"
	"strconv"
	"strings"
	"sync"
	"sync/atomic"
	"syscall"
	"time"

	"github.com/google/mtail/internal/runtime/code"
	"github.com/google/mtail/internal/zverif/shared/mt"
	"github.com/google/mtail/internal/zverif/vlib"
)

func objString(o *code.Object) string {
	var b strings.Builder
	for _, in := range o.Program {
		fmt.Fprintf(&b, "%d %v %d\n", in.Opcode, in.Operand, in.SourceLine)
	}
	for _, s := range o.Strings {
		fmt.Fprintf(&b, "S %q\n", s)
	}
	for _, r := range o.Regexps {
		fmt.Fprintf(&b, "R %q\n", r.String())
	}
	for _, m := range o.Metrics {
		fmt.Fprintf(&b, "M %s %s %v %v %q hidden=%v limit=%d src=%s buckets=%v n=%d\n", m.Name, m.Program, m.Kind, m.Type, m.Keys, m.Hidden, m.Limit, m.Source, m.Buckets, len(m.LabelValues))
	}
	return b.String()
}

// Crash isolation.  A fatal error (stack overflow, out of memory) cannot be recovered in-process, so the whole
// enumeration runs in a child process that records, per worker slot, the index of the input being compiled in a
// small shared file.  If the child dies, the supervisor re-runs each in-flight input alone in a fresh process;
// the ones that kill it again are reported as crashes.
var slotIdx []byte

func setSlot(w int, i int) {
	if slotIdx != nil {
		binary.LittleEndian.PutUint64(slotIdx[8*w:], uint64(i))
	}
}

func supervise(c *vlib.Ctx, rule string, nw int) {
	dir := os.Getenv("VERIF_SCRATCH")
	if dir == "" {
		dir = os.TempDir()
	}
	path := filepath.Join(dir, "c03.slots")
	if err := os.WriteFile(path, make([]byte, 8*nw), 0o644); err != nil {
		fmt.Println("ENGINE-ERROR", err)
		os.Exit(2)
	}
	errPath := filepath.Join(dir, "c03.child.stderr")
	ef, _ := os.Create(errPath)
	cmd := exec.Command(os.Args[0], os.Args[1:]...)
	cmd.Env = append(os.Environ(), "C03_CHILD="+path)
	cmd.Stdout = os.Stdout
	cmd.Stderr = ef
	err := cmd.Run()
	ef.Close()
	code := 0
	if err != nil {
		code = -1
		if ee, ok := err.(*exec.ExitError); ok {
			code = ee.ExitCode()
		}
	}
	if code == 0 || code == 1 {
		os.Exit(code)
	}
	tail := func(p string) string {
		b, _ := os.ReadFile(p)
		t := string(b)
		if k := strings.Index(t, "fatal error:"); k >= 0 {
			t = t[k:]
		} else if k := strings.Index(t, "panic:"); k >= 0 {
			t = t[k:]
		}
		if len(t) > 1200 {
			t = t[:1200]
		}
		return t
	}
	b, _ := os.ReadFile(path)
	confirmed := 0
	var mu sync.Mutex
	var wg sync.WaitGroup
	for w := 0; w+8 <= len(b); w += 8 {
		i := binary.LittleEndian.Uint64(b[w:])
		if i == 0 {
			continue
		}
		wg.Add(1)
		go func(w int, i uint64) {
			defer wg.Done()
			one := exec.Command(os.Args[0], os.Args[1:]...)
			one.Env = append(os.Environ(), "C03_ONE="+strconv.FormatUint(i-1, 10))
			oneErr := filepath.Join(dir, fmt.Sprintf("c03.one%d.stderr", w))
			of, _ := os.Create(oneErr)
			one.Stderr = of
			out, rerr := one.Output()
			of.Close()
			if rerr == nil {
				return // this input compiles alone: it was merely in flight when another one killed the process
			}
			var src struct{ Fam, Src string }
			sc := bufio.NewScanner(strings.NewReader(string(out)))
			sc.Buffer(make([]byte, 1<<20), 1<<26)
			for sc.Scan() {
				if strings.HasPrefix(sc.Text(), "C03SRC ") {
					_ = json.Unmarshal([]byte(sc.Text()[7:]), &src)
				}
			}
			t := tail(oneErr)
			first := strings.SplitN(strings.TrimSpace(t), "\n", 2)[0]
			c.Report("crash "+trunc(src.Src), fmt.Sprintf("compiling %s kills the process (%s); recover() cannot catch it:\n%s", trunc(src.Src), first, t), map[string]string{"family": src.Fam, "source": src.Src})
			mu.Lock()
			confirmed++
			mu.Unlock()
		}(w, i)
	}
	wg.Wait()
	if confirmed == 0 {
		fmt.Println("ENGINE-ERROR the enumeration process died and no in-flight input reproduces it alone:\n" + tail(errPath))
		os.Exit(2)
	}
	c.CapHit("the enumeration was aborted by a compiler crash that kills the process")
	c.Finish(rule)
}

type slot struct {
	mu    sync.Mutex
	src   string
	start time.Time
}

var slots []*slot
var accepted, rejected int64

func compileOnce(src string) (o *code.Object, err error, pan interface{}) {
	defer func() {
		if r := recover(); r != nil {
			pan = r
		}
	}()
	o, err = mt.Compile("prog.mtail", src, mt.Opts{})
	return
}

func trunc(s string) string {
	if len(s) > 160 {
		return fmt.Sprintf("%q…(%d bytes)", s[:160], len(s))
	}
	return fmt.Sprintf("%q", s)
}

func check(c *vlib.Ctx, w int, family, src string) {
	s := slots[w]
	s.mu.Lock()
	s.src, s.start = src, time.Now()
	s.mu.Unlock()
	defer func() {
		s.mu.Lock()
		s.src = ""
		s.mu.Unlock()
	}()
	o, err, pan := compileOnce(src)
	rep := map[string]string{"family": family, "source": src}
	switch {
	case pan != nil:
		c.Report("panic "+trunc(src), fmt.Sprintf("compiler panicked on %s: %v", trunc(src), pan), rep)
	case o != nil && err != nil:
		c.Report("both "+trunc(src), fmt.Sprintf("compiler returned code AND errors for %s: %v", trunc(src), err), rep)
	case o == nil && err == nil:
		c.Report("neither "+trunc(src), "compiler returned neither code nor errors for "+trunc(src), rep)
	case o == nil && strings.TrimSpace(err.Error()) == "":
		c.Report("empty-errors "+trunc(src), "compiler returned an empty error list for "+trunc(src), rep)
	}
	if o != nil && pan == nil {
		atomic.AddInt64(&accepted, 1)
		o2, err2, pan2 := compileOnce(src)
		if pan2 != nil || err2 != nil || o2 == nil || objString(o) != objString(o2) {
			c.Report("nondeterministic "+trunc(src), fmt.Sprintf("second compile of %s differs (err=%v panic=%v)", trunc(src), err2, pan2), rep)
		}
		c.Eval(family + ":" + src)
	} else {
		atomic.AddInt64(&rejected, 1)
		c.Eval("")
	}
}

func watchdog(c *vlib.Ctx, rule string) {
	for {
		time.Sleep(2 * time.Second)
		for _, s := range slots {
			s.mu.Lock()
			src, st := s.src, s.start
			s.mu.Unlock()
			if src != "" && time.Since(st) > 30*time.Second {
				done := make(chan struct{})
				go func() { compileOnce(src); close(done) }()
				select {
				case <-done:
					// the first attempt may merely be starved; keep waiting for it
					if time.Since(st) > 120*time.Second {
						c.Report("hang "+trunc(src), "compile did not finish within 120 s (a second attempt did finish)", map[string]string{"source": src})
						c.CapHit("aborted after a hung compile")
						c.Finish(rule)
					}
				case <-time.After(30 * time.Second):
					c.Report("hang "+trunc(src), "compile did not finish within 30 s on two attempts", map[string]string{"source": src})
					c.CapHit("aborted after a hung compile")
					c.Finish(rule)
				}
			}
		}
	}
}

var tokRe = regexp.MustCompile(`"(?:[^"\\\n]|\\.)*"|/(?:[^/\\\n]|\\.)+/|[A-Za-z_$@][A-Za-z0-9_.]*|\d+(?:\.\d+)?[smhd]?|\*\*|\+\+|--|\+=|<=|>=|==|!=|=~|!~|&&|\|\||<<|>>|\n|[^\sA-Za-z0-9]`)

func main() {
	c := vlib.Init("exploration")
	rule := "families: (1) all byte strings of length<=2; (2) all token sequences of length<=3 (thorough 4) over a 60-token alphabet; (3) every prefix and single-token deletion (thorough: also duplication and 4 replacements) of every example program and test program corpus; (4) nesting families across the recursion limit and regex-length families across 1024; unterminated strings/regexes; (5) well-formed statements in context: every binary operator between every pair of 14 atoms (constants of each type, typed captures, metrics, pattern constants), unary forms, all constant-only depth-2 trees over 6 constants and 11 arithmetic/bitwise operators, every builtin with 0-3 arguments from the atoms; (6) pattern constants doubling per line (allocation growth); (7) every ordered forest of <=7 statements over {next, @a {..}, @b {..}, def a {..}, def b {..}} (quick: only those whose definitions contain a next, and at 7 statements only those defining and applying both decorators). The enumeration runs in a child process so that a fatal error (stack overflow) is attributed to its input. Each input: no panic, exactly one of {code, non-empty errors}, finishes, second compile identical. distinct_nontrivial = distinct inputs the compiler accepted"
	nw := runtime.NumCPU()
	for i := 0; i < nw; i++ {
		slots = append(slots, &slot{})
	}
	debug.SetMaxStack(64 << 20) // a runaway recursion dies quickly instead of eating a gigabyte first
	switch {
	case os.Getenv("C03_ONE") != "":
	case os.Getenv("C03_CHILD") == "":
		supervise(c, rule, nw)
	default:
		f, err := os.OpenFile(os.Getenv("C03_CHILD"), os.O_RDWR, 0)
		if err == nil {
			slotIdx, err = syscall.Mmap(int(f.Fd()), 0, 8*nw, syscall.PROT_READ|syscall.PROT_WRITE, syscall.MAP_SHARED)
		}
		if err != nil {
			fmt.Println("ENGINE-ERROR slot file:", err)
			os.Exit(2)
		}
	}
	go watchdog(c, rule)
	var inputs []struct{ fam, src string }
	add := func(f, s string) { inputs = append(inputs, struct{ fam, src string }{f, s}) }

	// (1) all byte strings of length <= 2
	add("bytes", "")
	for a := 0; a < 256; a++ {
		add("bytes", string([]byte{byte(a)}))
		for b := 0; b < 256; b++ {
			add("bytes", string([]byte{byte(a), byte(b)}))
		}
	}
	// (2) token sequences
	toks := []string{"counter", "gauge", "timer", "text", "histogram", "hidden", "by", "as", "buckets", "limit", "const", "def", "del", "after", "next", "otherwise", "else", "stop",
		"foo", "strptime", "timestamp", "len", "$1", "$name", "\"str\"", "/re(\\d+)/", "1", "2.5", "5s", "@deco",
		"{", "}", "(", ")", "[", "]", ",", "\n", "+", "-", "*", "/", "%", "**", "++", "--", "+=", "=", "<", ">=", "==", "!=", "=~", "!~", "&&", "||", "&", "|", "^", "~", "<<"}
	maxTok := c.Pick(3, 4)
	var gen func(cur []string)
	gen = func(cur []string) {
		if len(cur) > 0 {
			add("tokens", strings.Join(cur, " ")+"\n")
		}
		if len(cur) == maxTok {
			return
		}
		for _, t := range toks {
			gen(append(cur, t))
		}
	}
	gen(nil)
	// (3) corpus edits
	repo := os.Getenv("VERIF_REPO")
	if repo == "" {
		repo = "/repo"
	}
	files, _ := filepath.Glob(filepath.Join(repo, "examples", "*.mtail"))
	sort.Strings(files)
	corpus := 0
	for _, f := range files {
		b, err := os.ReadFile(f)
		if err != nil {
			continue
		}
		src := string(b)
		corpus++
		add("corpus", src)
		step := 1
		if c.Quick() && len(src) > 1500 {
			step = 7
		}
		for i := 0; i < len(src); i += step {
			add("prefix:"+filepath.Base(f), src[:i])
		}
		locs := tokRe.FindAllStringIndex(src, -1)
		tstep := 1
		if c.Quick() && len(locs) > 400 {
			tstep = 3
		}
		for k := 0; k < len(locs); k += tstep {
			l := locs[k]
			add("tokdel:"+filepath.Base(f), src[:l[0]]+src[l[1]:])
			if c.Thorough() {
				add("tokdup:"+filepath.Base(f), src[:l[1]]+" "+src[l[0]:])
				for _, r := range []string{"{", "}", "/", "\""} {
					add("tokrep:"+filepath.Base(f), src[:l[0]]+r+src[l[1]:])
				}
			}
		}
	}
	// (4) nesting / length families
	for n := 1; n <= 300; n++ {
		add("nest-paren", "gauge g\n/x/ {\n  g = "+strings.Repeat("(", n)+"1"+strings.Repeat(")", n)+"\n}\n")
		add("nest-block", strings.Repeat("/a/ {\n", n)+strings.Repeat("}\n", n))
		add("nest-plus", "gauge g\n/x/ {\n  g = 1"+strings.Repeat(" + 1", n)+"\n}\n")
		add("nest-neg", "gauge g\n/(\\d+)/ {\n  g = "+strings.Repeat("~", n)+"$1\n}\n")
		add("nest-else", "counter c\n"+strings.Repeat("/a/ {\n  c++\n} else {\n", n)+strings.Repeat("}\n", n))
		add("nest-index", "counter c by a\n/x/ {\n  c"+strings.Repeat("[\"k\"]", n)+"++\n}\n")
	}
	for n := 1000; n <= 1100; n++ {
		if c.Quick() && n%10 != 0 && (n < 1018 || n > 1030) {
			continue
		}
		add("regex-len", "/"+strings.Repeat("a", n)+"/ {\n}\n")
		add("regex-len-concat", "const A /"+strings.Repeat("a", n/2)+"/\n/b/ + A + A {\n}\n")
	}
	for n := 0; n <= 8; n++ {
		add("unterminated", "text t\n/x/ {\n  t = \""+strings.Repeat("a", n))
		add("unterminated", "/"+strings.Repeat("a", n))
		add("unterminated", "/"+strings.Repeat("a", n)+"\n")
		add("unterminated", "text t\n/x/ {\n  t = \""+strings.Repeat("\\", n))
	}
	// (5) well-formed statements in context: every binary operator between every pair of atoms (constants
	// of each type, typed captures, metrics, pattern constants), constant-only depth-2 trees (the folder's
	// domain), every builtin with 0-3 arguments from the atom set; declarations are generated on demand so
	// that the checker does not stop at an unused symbol and the optimiser and code generator are reached.
	{
		atoms := []string{"0", "1", "-1", "2", "64", "1.5", "\"s\"", "$1", "$2", "$3", "g", "t", "A", "/x/"}
		consts := []string{"1", "-1", "2", "70", "1.5", "0"}
		ops := []string{"+", "-", "*", "/", "%", "**", "<<", ">>", "&", "|", "^", "<", "<=", ">", ">=", "==", "!=", "&&", "||", "=~", "!~"}
		wrap := func(fam, stmt string) {
			var decl strings.Builder
			has := func(id string) bool {
				return regexp.MustCompile(`(^|[^A-Za-z0-9_$"])` + id + `($|[^A-Za-z0-9_"])`).MatchString(stmt)
			}
			if has("c") {
				decl.WriteString("counter c\n")
			}
			if has("g") {
				decl.WriteString("gauge g\n")
			}
			if has("t") {
				decl.WriteString("text t\n")
			}
			if has("d") {
				decl.WriteString("counter d by k\n")
			}
			if has("A") {
				decl.WriteString("const A /a/\n")
			}
			add(fam, decl.String()+"/^(\\S+) (\\d+) (\\d+\\.\\d+)$/ {\n  "+stmt+"\n}\n")
		}
		ctxs := []string{"g = %s", "%s {\n  }", "d[%s]++", "t = %s", "c += %s"}
		if c.Quick() {
			ctxs = ctxs[:3]
		}
		for _, x := range atoms {
			for _, y := range atoms {
				for _, o := range ops {
					for _, cx := range ctxs {
						wrap("binary-in-context", fmt.Sprintf(cx, x+" "+o+" "+y))
					}
				}
			}
			for _, cx := range ctxs {
				wrap("unary-in-context", fmt.Sprintf(cx, "~"+x))
				wrap("unary-in-context", fmt.Sprintf(cx, "~ ("+x+" > 1)"))
			}
		}
		for _, x := range consts {
			for _, y := range consts {
				for _, z := range consts {
					for _, o1 := range ops[:11] {
						for _, o2 := range ops[:11] {
							wrap("const-tree", "g = ("+x+" "+o1+" "+y+") "+o2+" "+z)
							if c.Thorough() {
								wrap("const-tree", "g = "+x+" "+o1+" ("+y+" "+o2+" "+z+")")
								wrap("const-tree", "("+x+" "+o1+" "+y+") "+o2+" "+z+" > 0 {\n  }")
							}
						}
					}
				}
			}
		}
		args := append(append([]string{}, atoms...), "A + \"b\"", "\"b\" + A", "$1 + \"b\"")
		builtins := []string{"strptime", "timestamp", "len", "tolower", "settime", "getfilename", "int", "float", "string", "strtol", "subst"}
		for _, f := range builtins {
			var calls []string
			calls = append(calls, f+"()")
			for _, a := range args {
				calls = append(calls, f+"("+a+")")
				for _, b := range args {
					calls = append(calls, f+"("+a+", "+b+")")
					if f == "subst" || f == "strptime" || c.Thorough() {
						for _, d := range args {
							calls = append(calls, f+"("+a+", "+b+", "+d+")")
						}
					}
				}
			}
			for _, call := range calls {
				wrap("builtin-call", "g = "+call)
				wrap("builtin-call", "t = "+call)
				wrap("builtin-call", call)
			}
		}
	}
	// (6) resource growth: pattern constants that double per line.  Measured sequentially (allocation
	// volume, not time): compiling n lines must not cost exponentially more than compiling n/2 lines.
	{
		mk := func(n int) string {
			var b strings.Builder
			b.WriteString("const A0 /x/\n")
			for i := 1; i <= n; i++ {
				fmt.Fprintf(&b, "const A%d /x/ + A%d + A%d\n", i, i-1, i-1)
			}
			return b.String()
		}
		alloc := func(src string) uint64 {
			var m0, m1 runtime.MemStats
			runtime.GC()
			runtime.ReadMemStats(&m0)
			compileOnce(src)
			runtime.ReadMemStats(&m1)
			return m1.TotalAlloc - m0.TotalAlloc
		}
		use := func(n int) string { return mk(n) + fmt.Sprintf("/y/ + A%d {\n}\n", n) }
		a10, a20 := alloc(use(10)), alloc(use(20))
		c.Set("const_doubling_alloc_bytes", map[string]uint64{"10_lines": a10, "20_lines": a20})
		c.Eval("const-doubling")
		if a20 > 40*a10 {
			c.Report("superlinear const-doubling", fmt.Sprintf("compiling 20 lines of pattern constants that each concatenate the previous one twice allocates %d bytes, %d times the %d bytes of the 10-line version: the expansion doubles per line (about 30 lines exhaust memory) before the pattern length limit applies", a20, a20/a10, a10), map[string]string{"source": use(20)})
		}
		for n := 1; n <= 14; n++ {
			add("const-doubling", mk(n))
			add("const-doubling", mk(n)+fmt.Sprintf("/y/ + A%d {\n}\n", n))
		}
	}
	// (7) decorator definitions and applications: every ordered forest of statements over
	// {next, @a {..}, @b {..}, def a {..}, def b {..}} (each decorator defined at most once): nested definitions,
	// self- and mutual application, application before / inside / after the definition.
	// thorough: all forests of <=7 statements.  quick: forests of <=6 statements in which every definition
	// contains a next (the others are refused at once), plus those of 7 statements that define and apply both.
	{
		type fr struct {
			s                string
			da, db           int
			next, useA, useB bool
		}
		maxN := 7
		prune := c.Quick()
		trees := make([][]fr, maxN+1)
		forests := make([][]fr, maxN+1)
		forests[0] = []fr{{s: ""}}
		for n := 1; n <= maxN; n++ {
			if n == 1 {
				trees[1] = append(trees[1], fr{s: "next\n", next: true})
			}
			for li, lab := range []fr{{s: "@a", useA: true}, {s: "@b", useB: true}, {s: "def a", da: 1}, {s: "def b", db: 1}} {
				for _, f := range forests[n-1] {
					if lab.da+f.da > 1 || lab.db+f.db > 1 {
						continue
					}
					if prune && li >= 2 && !f.next {
						continue
					}
					trees[n] = append(trees[n], fr{lab.s + " {\n" + f.s + "}\n", lab.da + f.da, lab.db + f.db, f.next, lab.useA || f.useA, lab.useB || f.useB})
				}
			}
			for k := 1; k <= n; k++ {
				for _, t := range trees[k] {
					for _, f := range forests[n-k] {
						if t.da+f.da <= 1 && t.db+f.db <= 1 {
							forests[n] = append(forests[n], fr{t.s + f.s, t.da + f.da, t.db + f.db, t.next || f.next, t.useA || f.useA, t.useB || f.useB})
						}
					}
				}
			}
			for _, f := range forests[n] {
				if prune && n == maxN && !(f.da == 1 && f.db == 1 && f.useA && f.useB) {
					continue
				}
				add("decorators", f.s)
			}
		}
	}
	if one := os.Getenv("C03_ONE"); one != "" {
		i, _ := strconv.Atoi(one)
		b, _ := json.Marshal(map[string]string{"Fam": inputs[i].fam, "Src": inputs[i].src})
		fmt.Printf("C03SRC %s\n", b)
		os.Stdout.Sync()
		compileOnce(inputs[i].src)
		os.Exit(0)
	}
	vlib.ParallelW(len(inputs), nw, func(w, i int) {
		setSlot(w, i+1)
		defer setSlot(w, 0)
		check(c, w, inputs[i].fam, inputs[i].src)
		if i%70001 == 5 || (inputs[i].fam == "nest-else" && strings.Count(inputs[i].src, "else") == 3) {
			c.Sample(map[string]string{"family": inputs[i].fam, "source": trunc(inputs[i].src)})
		}
	})
	c.Set("inputs", len(inputs))
	c.Set("accepted", atomic.LoadInt64(&accepted))
	c.Set("rejected", atomic.LoadInt64(&rejected))
	c.Set("corpus_files", corpus)
	c.Assume = []string{"termination is judged with a 30 s watchdog applied twice to the same input; nothing shorter is ever treated as a hang"}
	c.Finish(rule)
}
