// C11 — concurrent processing, export, reload and GC are race-free.
// gosim in race mode: the real Store, Metric, datum, VM and exporter code,
// instrumented (sync, atomics, channels, and R/W hooks on the shared metric
// fields), explored over all schedules up to a deviation bound for every pair
// (thorough: also triples) of activities from {line processing, GC, each
// export path, reload}; a source-level vector-clock detector reports two
// conflicting accesses that mtail's own synchronisation does not order.
package main

import (
	"context"
	"fmt"
	"net/http/httptest"
	"regexp"
	"sort"
	"strings"
	"time"

	"github.com/google/mtail/internal/exporter"
	"github.com/google/mtail/internal/metrics"
	"github.com/google/mtail/internal/metrics/datum"
	"github.com/google/mtail/internal/zverif/gsx"
	"github.com/google/mtail/internal/zverif/shared/mt"
	"github.com/google/mtail/internal/zverif/vlib"
	"github.com/google/mtail/internal/zverif/vrt"
	"github.com/prometheus/client_golang/prometheus"
	dto "github.com/prometheus/client_model/go"
)

func src(v string) string {
	return "counter c by k limit 3\ngauge f\ntext t\nhistogram h buckets 1, 2\n" +
		"/^(\\w+) (\\d+)$/ {\n  c[$1]++\n  f += 0.5\n  t = $1\n  h = $2\n}\n/^del (\\w+)$/ {\n  del c[$1]\n}\n" + v
}

type world struct {
	store *metrics.Store
	p     *mt.Prog
	e     *exporter.Exporter
	errs  []string
	outs  map[string]string
}

func setup() *world {
	w := &world{store: metrics.NewStore(), outs: map[string]string{}}
	p, err := mt.Load("prog", src(""), mt.Opts{})
	if err != nil {
		w.errs = append(w.errs, err.Error())
		return w
	}
	w.p = p
	// two bystander programs declare the same metric names, one registered before and one after the
	// program under test, so that the per-name metric lists have three entries and the reload edits the middle
	reg := func(name string) {
		q, err := mt.Load(name, src(""), mt.Opts{})
		if err != nil {
			w.errs = append(w.errs, err.Error())
			return
		}
		for _, m := range q.VM.Metrics {
			if err := w.store.Add(m); err != nil {
				w.errs = append(w.errs, err.Error())
			}
			if m.Name == "c" {
				d, _ := m.GetDatum("a")
				datum.SetInt(d, 7, time.Now().Add(-time.Minute))
			}
		}
	}
	reg("before")
	for _, m := range p.VM.Metrics {
		if err := w.store.Add(m); err != nil {
			w.errs = append(w.errs, err.Error())
		}
	}
	reg("zafter")
	// pre-populate: four tuples of c (over the limit), one of them old and marked for expiry
	old := time.Now().Add(-3 * time.Hour)
	for i, k := range []string{"z", "y", "x", "a"} {
		for _, m := range p.VM.Metrics {
			if m.Name == "c" {
				d, _ := m.GetDatum(k)
				datum.SetInt(d, int64(10*(i+1)), old.Add(time.Duration(i)*time.Minute))
				if k == "y" {
					_ = m.ExpireDatum(time.Hour, k)
				}
			}
		}
	}
	e, err := exporter.New(context.Background(), w.store, exporter.Hostname("h"), exporter.DisableExport())
	if err != nil {
		w.errs = append(w.errs, err.Error())
	}
	w.e = e
	return w
}

type activity struct {
	name string
	run  func(w *world)
	// second: a second instance of an export path, paired only with its first instance (two overlapping
	// scrapes, a scrape during a push)
	second string
}

var activities = []activity{
	{"V", func(w *world) {
		w.p.Line("f", "a 1")
		w.p.Line("f", "b 2")
		w.p.Line("f", "del x")
	}, ""},
	{"G", func(w *world) {
		if err := w.store.Gc(); err != nil {
			w.errs = append(w.errs, "gc: "+err.Error())
		}
	}, ""},
	{"Xprom", func(w *world) {
		ch := vrt.MkU(make(chan prometheus.Metric, 1))
		done := vrt.MkU(make(chan struct{}, 1))
		vrt.Go(func() {
			var seen []string
			for {
				m, ok := <-vrt.R(ch)
				if !ok {
					break
				}
				var d dto.Metric
				if err := m.Write(&d); err != nil {
					continue
				}
				var ls []string
				for _, lp := range d.Label {
					ls = append(ls, lp.GetName()+"="+lp.GetValue())
				}
				sort.Strings(ls)
				desc := m.Desc().String()
				if i := strings.Index(desc, `fqName: "`); i >= 0 {
					desc = desc[i+9:]
					if j := strings.Index(desc, `"`); j >= 0 {
						desc = desc[:j]
					}
				}
				seen = append(seen, desc+"{"+strings.Join(ls, ",")+"}")
			}
			w.outs["prom"] = strings.Join(seen, "\n")
			close(vrt.Cl(done))
		})
		w.e.Collect(ch)
		close(vrt.Cl(ch))
		<-vrt.R(done)
	}, ""},
	{"Xjson", func(w *world) {
		r := httptest.NewRecorder()
		w.e.HandleJSON(r, httptest.NewRequest("GET", "/json", nil))
		w.outs["json"] = r.Body.String()
	}, ""},
	{"Xvarz", func(w *world) {
		r := httptest.NewRecorder()
		w.e.HandleVarz(r, httptest.NewRequest("GET", "/varz", nil))
		w.outs["varz"] = r.Body.String()
	}, ""},
	{"Xgraphite", func(w *world) {
		r := httptest.NewRecorder()
		w.e.HandleGraphite(r, httptest.NewRequest("GET", "/graphite", nil))
		w.outs["graphite"] = r.Body.String()
	}, ""},
	{"Xpush", func(w *world) {
		var b strings.Builder
		if err := w.e.VerifWriteSocket(&b, "statsd"); err != nil {
			w.errs = append(w.errs, "push: "+err.Error())
		}
		w.outs["statsd"] = b.String()
	}, ""},
	{"R", func(w *world) {
		p2, err := mt.Load("prog", src("# edited\n"), mt.Opts{})
		if err != nil {
			w.errs = append(w.errs, "reload: "+err.Error())
			return
		}
		for _, m := range p2.VM.Metrics {
			if err := w.store.Add(m); err != nil {
				w.errs = append(w.errs, "reload add: "+err.Error())
			}
		}
		p2.Line("f", "a 1")
	}, ""},
	{"Xgraphite2", func(w *world) {
		r := httptest.NewRecorder()
		w.e.HandleGraphite(r, httptest.NewRequest("GET", "/graphite", nil))
		w.outs["graphite2"] = r.Body.String()
	}, "Xgraphite"},
	{"XpushGraphite", func(w *world) {
		var b strings.Builder
		if err := w.e.VerifWriteSocket(&b, "graphite"); err != nil {
			w.errs = append(w.errs, "push: "+err.Error())
		}
		w.outs["graphite2"] = b.String()
	}, "Xgraphite"},
	{"Xvarz2", func(w *world) {
		r := httptest.NewRecorder()
		w.e.HandleVarz(r, httptest.NewRequest("GET", "/varz", nil))
		w.outs["varz2"] = r.Body.String()
	}, "Xvarz"},
	{"Xjson2", func(w *world) {
		r := httptest.NewRecorder()
		w.e.HandleJSON(r, httptest.NewRequest("GET", "/json", nil))
		w.outs["json2"] = r.Body.String()
	}, "Xjson"},
	{"Xpush2", func(w *world) {
		var b strings.Builder
		if err := w.e.VerifWriteSocket(&b, "statsd"); err != nil {
			w.errs = append(w.errs, "push: "+err.Error())
		}
		w.outs["statsd2"] = b.String()
	}, "Xpush"},
	// the program deletes the two tuples at the front of the metric (started after every reader, so that with no
	// deviation at all it runs whenever the reader first blocks)
	{"D", func(w *world) {
		w.p.Line("f", "del z")
		w.p.Line("f", "del y")
	}, ""},
}

var varzC = regexp.MustCompile(`(?m)^c\{k=a,prog=prog,[^}]*\} (\d+)$`)

func main() {
	vrt.RaceDetect = true
	c := vlib.Init("exploration")
	type scen struct {
		name string
		acts []int
	}
	var scens []scen
	n := len(activities)
	for i := 0; i < n; i++ {
		for j := i; j < n; j++ {
			if i == j || (activities[i].name == "V" && activities[j].name == "D") {
				continue // one VM is driven by one goroutine; two reloads of one program are serialised by the loader
			}
			if activities[i].second != "" || (activities[j].second != "" && activities[j].second != activities[i].name) {
				continue
			}
			scens = append(scens, scen{activities[i].name + "|" + activities[j].name, []int{i, j}})
		}
	}
	if c.Thorough() {
		for _, t := range [][]int{{0, 1, 2}, {0, 1, 3}, {0, 1, 7}, {0, 2, 7}, {0, 3, 7}, {0, 4, 5}, {1, 3, 7}, {0, 6, 1}} {
			scens = append(scens, scen{activities[t[0]].name + "|" + activities[t[1]].name + "|" + activities[t[2]].name, t})
		}
	}
	for _, s := range scens {
		s := s
		var w *world
		var races []vrt.Race
		body := func() {
			w = setup()
			for _, ai := range s.acts {
				a := activities[ai]
				vrt.Go(func() { a.run(w) })
			}
			vrt.Join()
			races = vrt.Races()
		}
		wantA := int64(40)
		for _, ai := range s.acts {
			if activities[ai].name == "V" || activities[ai].name == "R" {
				wantA++
			}
		}
		gsx.Explore(c, gsx.Config{
			Scenario: s.name, Bound: c.Pick(1, 2), MaxSteps: 400000, ByScenario: !c.Thorough(),
			Deadline: c.Deadline(8*time.Minute, 50*time.Minute),
			Body:     body,
			More: func(e vrt.Exec) map[string]string {
				out := map[string]string{}
				for _, r := range races {
					out["race "+r.Key()] = fmt.Sprintf("scenario %s: two accesses to %s are not ordered by mtail's synchronisation: %s and %s", s.name, r.Field, r.A, r.B)
				}
				return out
			},
			Check: func(e vrt.Exec) (string, string, string) {
				if len(w.errs) > 0 {
					return "error " + s.name + ": " + w.errs[0], strings.Join(w.errs, "\n"), "error"
				}
				if len(races) > 0 {
					r := races[0]
					return "race " + r.Key(), fmt.Sprintf("scenario %s: two accesses to %s are not ordered by mtail's synchronisation: %s and %s", s.name, r.Field, r.A, r.B), "race"
				}
				// no increment lost on the audited tuple c[a] (never removed: it is the most recently updated)
				var got int64 = -1
				for _, ml := range w.store.Metrics {
					for _, m := range ml {
						if m.Name == "c" && m.Program == "prog" {
							if lv := m.FindLabelValueOrNil([]string{"a"}); lv != nil {
								got = datum.GetInt(lv.Value)
							}
						}
					}
				}
				if got != wantA {
					return fmt.Sprintf("lost-update %s c[a]=%d", s.name, got), fmt.Sprintf("scenario %s: c[a] = %d after the run, %d increments on top of 40 were issued", s.name, got, wantA-40), "lost-update"
				}
				// one export pass shows every program's series exactly once, also while a reload edits the store
				if out, ok := w.outs["varz"]; ok {
					for _, pr := range []string{"before", "prog", "zafter"} {
						if n := strings.Count(out, "c{k=a,prog="+pr+","); n != 1 {
							return fmt.Sprintf("export-pass %s varz prog=%s x%d", s.name, pr, n), fmt.Sprintf("one /varz pass lists the series c{k=a} of program %q %d times (the store holds it once):\n%s", pr, n, out), "bad-export-pass"
						}
					}
				}
				if out, ok := w.outs["prom"]; ok {
					cnt := map[string]int{}
					for _, l := range strings.Split(out, "\n") {
						cnt[l]++
					}
					for l, n := range cnt {
						if n > 1 && l != "" {
							return fmt.Sprintf("export-pass %s prometheus duplicate", s.name), fmt.Sprintf("one Collect pass produced the series %s %d times:\n%s", l, n, out), "bad-export-pass"
						}
					}
					for _, pr := range []string{"before", "prog", "zafter"} {
						if n := cnt["c{k=a,prog="+pr+"}"]; n != 1 {
							return fmt.Sprintf("export-pass %s prometheus prog=%s x%d", s.name, pr, n), fmt.Sprintf("one Collect pass lists the series c{k=a} of program %q %d times (it exists throughout):\n%s", pr, n, out), "bad-export-pass"
						}
					}
				}
				for _, k := range []string{"graphite", "graphite2"} {
					out, ok := w.outs[k]
					if !ok {
						continue
					}
					for _, pr := range []string{"before", "prog", "zafter"} {
						if n := strings.Count(out, pr+".c.k.a "); n != 1 {
							return fmt.Sprintf("export-pass %s graphite prog=%s x%d", s.name, pr, n), fmt.Sprintf("one /graphite pass lists c.k.a of program %q %d times", pr, n), "bad-export-pass"
						}
					}
				}
				// every exported value of c[a] existed at some point
				if out, ok := w.outs["varz"]; ok {
					if m := varzC.FindStringSubmatch(out); m != nil {
						var v int64
						fmt.Sscan(m[1], &v)
						if v < 40 || v > wantA {
							return fmt.Sprintf("export-value %s varz c[a]=%d", s.name, v), fmt.Sprintf("varz exported c{k=a} = %d, the datum only ever held values in [40, %d]", v, wantA), "bad-export"
						}
					}
				}
				return "", "", fmt.Sprintf("c[a]=%d", got)
			},
		})
	}
	metricOps(c)
	c.Assume = []string{
		"scheduling points: every synchronisation operation and every access to a hooked shared field (Metric.LabelValues/labelValuesMap/Source/Limit/Buckets/Keys, LabelValue.Expiry/Value/Labels, Store.Metrics, datum.String.Value, datum.Buckets.Buckets/Count/Sum, VM.runtimeError/terminate/input) of metrics, datum, exporter and vm",
		"a race is two accesses to the same field address from different threads, at least one a write, not ordered by the happens-before relation built from mtail's own mutexes, rwmutexes, waitgroups, channels, atomics and goroutine starts; scheduler hand-offs add no edge",
		"hardware/compiler memory-order effects on fields that are not hooked are outside this detector",
	}
	gsx.Finish(c, "for every pair (thorough: also 8 triples) of activities from {VM processing three lines incl. creating and deleting label tuples, Store.Gc with a limit and an expired datum, Collect, HandleJSON, HandleVarz, HandleGraphite, push writer, reload (compile edited source, Store.Add, first line on the new VM)} on one store: all schedules with <=1 (thorough 2) deviations of the instrumented real code; oracles: no happens-before race on a hooked field, no deadlock or panic, the audited counter equals the increments issued, an exported value of it lies in the range it ever held; distinct_nontrivial = schedules with >=1 deviation")
}
