package main

// Metric-level part of C11: 2-3 threads, each issuing 1-2 operations of the
// kind the VM, the reloader (Store.Add) and the collector issue on ONE Metric
// — find-or-create + increment, delete, expiry mark, remove-oldest, locked
// enumeration — on keys forced to collide; all schedules up to the bound on
// the instrumented real code.  Oracle: linearizability by brute force — the
// operations' results and the final contents of the metric must equal those
// of SOME sequential order of the same locked steps (an increment is find-or-create,
// atomic add, atomic stamp store; remove-oldest is scan then remove) on a plain ordered-list model (plus the race detector, and slice/index consistency).

import (
	"fmt"
	"sort"
	"strings"
	"time"

	"github.com/google/mtail/internal/metrics"
	"github.com/google/mtail/internal/metrics/datum"
	"github.com/google/mtail/internal/zverif/gsx"
	"github.com/google/mtail/internal/zverif/vlib"
	"github.com/google/mtail/internal/zverif/vrt"
)

type mop struct {
	kind string // inc, del, exp, enum, oldest
	key  string
}

func (o mop) String() string {
	if o.key == "" {
		return o.kind
	}
	return o.kind + "(" + o.key + ")"
}

// reference model: insertion-ordered list
type mentry struct {
	id     int
	key    string
	val    int64
	stamp  int64
	expiry time.Duration
}

type mmodel struct {
	es     []mentry
	nextID int
	handle map[int]int    // thread -> id of the entry its last find-or-create returned
	picked map[int]string // thread -> key its remove-oldest scan chose ("" = none)
}

func (m *mmodel) clone() *mmodel {
	c := &mmodel{es: append([]mentry{}, m.es...), nextID: m.nextID, handle: map[int]int{}, picked: map[int]string{}}
	for k, v := range m.handle {
		c.handle[k] = v
	}
	for k, v := range m.picked {
		c.picked[k] = v
	}
	return c
}

func (m *mmodel) find(k string) int {
	for i, e := range m.es {
		if e.key == k {
			return i
		}
	}
	return -1
}

func (m *mmodel) render() string {
	var b strings.Builder
	for _, e := range m.es {
		fmt.Fprintf(&b, "%s=%d@%d/%v ", e.key, e.val, e.stamp, e.expiry)
	}
	return strings.TrimSpace(b.String())
}

// micro expands an operation into the steps the implementation performs under separate lock acquisitions:
// an increment is find-or-create followed by the datum update (the VM's dload and inc instructions), and
// remove-oldest is a scan followed by a removal by key.
func micro(ops []mop) []mop {
	var out []mop
	for _, o := range ops {
		switch o.kind {
		case "inc":
			out = append(out, mop{"get", o.key}, mop{"incrval", ""}, mop{"incrstamp", ""})
		case "oldest":
			out = append(out, mop{"pick", ""}, mop{"delpicked", ""})
		default:
			out = append(out, o)
		}
	}
	return out
}

// apply performs one step for thread t; it returns the observable result ("" = none)
func (m *mmodel) apply(t int, o mop, stamp int64) string {
	switch o.kind {
	case "get":
		i := m.find(o.key)
		if i < 0 {
			m.nextID++
			m.es = append(m.es, mentry{id: m.nextID, key: o.key})
			i = len(m.es) - 1
		}
		m.handle[t] = m.es[i].id
		return ""
	case "incrval", "incrstamp":
		// the datum update is an atomic add followed by an atomic store of the stamp
		for i := range m.es {
			if m.es[i].id == m.handle[t] {
				if o.kind == "incrval" {
					m.es[i].val++
				} else {
					m.es[i].stamp = stamp
				}
			}
		}
		if o.kind == "incrval" {
			return ""
		}
		return "ok" // on a datum that was removed meanwhile the update is not visible
	case "del":
		if i := m.find(o.key); i >= 0 {
			m.es = append(m.es[:i:i], m.es[i+1:]...)
		}
		return "ok"
	case "exp":
		i := m.find(o.key)
		if i < 0 {
			return "error"
		}
		m.es[i].expiry = time.Hour
		return "ok"
	case "enum":
		var ks []string
		for _, e := range m.es {
			ks = append(ks, fmt.Sprintf("%s=%d", e.key, e.val))
		}
		return strings.Join(ks, ",")
	case "pick":
		m.picked[t] = ""
		if len(m.es) > 0 {
			o := 0
			for i, e := range m.es {
				if e.stamp < m.es[o].stamp {
					o = i
				}
			}
			m.picked[t] = m.es[o].key
		}
		return ""
	case "delpicked":
		if k := m.picked[t]; k != "" {
			if i := m.find(k); i >= 0 {
				m.es = append(m.es[:i:i], m.es[i+1:]...)
			}
		}
		return "ok"
	}
	panic(o.kind)
}

const baseStamp = 1_600_000_000

func initialModel() *mmodel {
	return &mmodel{es: []mentry{{id: 1, key: "x", val: 5, stamp: baseStamp + 1}, {id: 2, key: "z", val: 7, stamp: baseStamp + 2}}, nextID: 2, handle: map[int]int{}, picked: map[int]string{}}
}

// sequentialOutcomes: every interleaving of the threads' step sequences on the model
func sequentialOutcomes(threads [][]mop) map[string]bool {
	out := map[string]bool{}
	steps := make([][]mop, len(threads))
	macro := make([][]int, len(threads)) // step -> index of the operation it belongs to (for the stamp)
	for t, ops := range threads {
		for i, o := range ops {
			for _, mo := range micro([]mop{o}) {
				steps[t] = append(steps[t], mo)
				macro[t] = append(macro[t], i)
			}
		}
	}
	pos := make([]int, len(threads))
	res := make([][]string, len(threads))
	var rec func(m *mmodel)
	rec = func(m *mmodel) {
		done := true
		for t := range steps {
			if pos[t] < len(steps[t]) {
				done = false
				cp := m.clone()
				r := cp.apply(t, steps[t][pos[t]], opStamp(t, macro[t][pos[t]]))
				n := len(res[t])
				if r != "" {
					res[t] = append(res[t], r)
				}
				pos[t]++
				rec(cp)
				pos[t]--
				res[t] = res[t][:n]
			}
		}
		if done {
			out[outcome(res, m.render())] = true
		}
	}
	rec(initialModel())
	return out
}

func opStamp(t, i int) int64 { return baseStamp + 100 + int64(10*t+i) }

func outcome(res [][]string, final string) string {
	var parts []string
	for t, r := range res {
		parts = append(parts, fmt.Sprintf("T%d[%s]", t, strings.Join(r, ";")))
	}
	return strings.Join(parts, " ") + " final{" + final + "}"
}

type mrun struct {
	m   *metrics.Metric
	res [][]string
}

func (r *mrun) do(t, i int, o mop) {
	stamp := time.Unix(opStamp(t, i), 0)
	var out string
	switch o.kind {
	case "inc":
		d, err := r.m.GetDatum(o.key)
		if err != nil {
			out = "error"
			break
		}
		datum.IncIntBy(d, 1, stamp)
		out = "ok"
	case "del":
		if err := r.m.RemoveDatum(o.key); err != nil {
			out = "error"
		} else {
			out = "ok"
		}
	case "exp":
		if err := r.m.ExpireDatum(time.Hour, o.key); err != nil {
			out = "error"
		} else {
			out = "ok"
		}
	case "enum":
		// what every exporter does: read the label values under the read lock
		r.m.RLock()
		var ks []string
		for _, lv := range r.m.LabelValues {
			ks = append(ks, fmt.Sprintf("%s=%d", strings.Join(lv.Labels, "|"), datum.GetInt(lv.Value)))
		}
		r.m.RUnlock()
		out = strings.Join(ks, ",")
	case "oldest":
		r.m.RemoveOldestDatum()
		out = "ok"
	}
	r.res[t] = append(r.res[t], out)
}

func (r *mrun) final() string {
	var b strings.Builder
	for _, lv := range r.m.LabelValues {
		fmt.Fprintf(&b, "%s=%d@%d/%v ", strings.Join(lv.Labels, "|"), datum.GetInt(lv.Value), lv.Value.TimeUTC().Unix(), lv.Expiry)
	}
	return strings.TrimSpace(b.String())
}

func metricOps(c *vlib.Ctx) {
	single := []mop{{"inc", "y"}, {"del", "y"}, {"exp", "y"}, {"enum", ""}, {"oldest", ""}, {"inc", "x"}, {"del", "x"}, {"exp", "x"}}
	var seqs [][]mop
	for _, o := range single {
		seqs = append(seqs, []mop{o})
	}
	for _, a := range []mop{{"inc", "y"}, {"del", "y"}, {"enum", ""}} {
		for _, b := range []mop{{"inc", "y"}, {"del", "y"}, {"enum", ""}, {"exp", "y"}} {
			seqs = append(seqs, []mop{a, b})
		}
	}
	var scens [][][]mop
	for i := range seqs {
		for j := i; j < len(seqs); j++ {
			scens = append(scens, [][]mop{seqs[i], seqs[j]})
		}
	}
	// three threads of one operation each
	for i := range single {
		for j := i; j < len(single); j++ {
			for k := j; k < len(single); k++ {
				scens = append(scens, [][]mop{{single[i]}, {single[j]}, {single[k]}})
			}
		}
	}
	for _, threads := range scens {
		threads := threads
		var names []string
		for _, t := range threads {
			var s []string
			for _, o := range t {
				s = append(s, o.String())
			}
			names = append(names, strings.Join(s, ";"))
		}
		name := "metric-ops " + strings.Join(names, " | ")
		want := sequentialOutcomes(threads)
		var r *mrun
		var races []vrt.Race
		body := func() {
			m := metrics.NewMetric("c", "prog", metrics.Counter, metrics.Int, "k")
			for _, e := range initialModel().es {
				d, _ := m.GetDatum(e.key)
				datum.SetInt(d, e.val, time.Unix(e.stamp, 0))
			}
			r = &mrun{m: m, res: make([][]string, len(threads))}
			for t := range threads {
				t := t
				vrt.Go(func() {
					for i, o := range threads[t] {
						r.do(t, i, o)
					}
				})
			}
			vrt.Join()
			races = vrt.Races()
		}
		bound := c.Pick(3, 5)
		if len(threads) == 3 {
			bound = c.Pick(2, 4)
		}
		gsx.Explore(c, gsx.Config{
			Scenario: name, Bound: bound, MaxSteps: 20000, ByScenario: true,
			Deadline: c.Deadline(8*time.Minute, 50*time.Minute),
			Body:     body,
			Check: func(e vrt.Exec) (string, string, string) {
				if len(races) > 0 {
					rc := races[0]
					return "race " + rc.Key(), fmt.Sprintf("scenario %s: two accesses to %s are not ordered by mtail's synchronisation: %s and %s", name, rc.Field, rc.A, rc.B), "race"
				}
				got := outcome(r.res, r.final())
				if s := r.m.VerifConsistent(); s != "" {
					return "inconsistent " + name, fmt.Sprintf("%s: label-value slice and index disagree after the run: %s (%s)", name, s, got), got
				}
				if !want[got] {
					var ws []string
					for w := range want {
						ws = append(ws, w)
					}
					sort.Strings(ws)
					return "not-linearizable " + name, fmt.Sprintf("%s: results and final contents\n  %s\nequal those of no sequential order of the operations; the sequential orders give\n  %s", name, got, strings.Join(ws, "\n  ")), got
				}
				return "", "", got
			},
		})
	}
	c.Set("metric_op_scenarios", len(scens))
}
