#!/usr/bin/env python3-vt
"""Validates MANIFEST.json and every evidence file against the given schemas."""
import json, glob, sys, jsonschema
ok = True
try:
    jsonschema.validate(json.load(open('/verif/MANIFEST.json')), json.load(open('/root/.vp/MANIFEST.schema.json')))
except Exception as e:
    ok = False; print("MANIFEST:", str(e)[:500])
es = json.load(open('/root/.vp/EVIDENCE.schema.json'))
for p in sorted(glob.glob('/verif/evidence/*.json')):
    try:
        jsonschema.validate(json.load(open(p)), es)
    except Exception as e:
        ok = False; print(p, str(e)[:500])
print("valid" if ok else "INVALID")
sys.exit(0 if ok else 1)
