#!/usr/bin/env python3
"""Regenerates /verif/MANIFEST.json from the table below (kept here so that the
manifest is always valid JSON and uniform)."""
import json, os
V = os.path.dirname(os.path.dirname(os.path.abspath(__file__)))

CHECKS = [
 # id, engine, level, text, note, technique, design_ref
 ("C02", "seqx", "exploration",
  "every constant expression tree of depth<=1 over 13 int/float atoms and {+,-,*,/,%,**} plus all depth-2 trees (left-, right-nested, unparenthesised) over a 7-atom (thorough 12-atom) set (atoms incl. 1000 so that results differ in digit count), in 16 syntactic positions (assignment, +=, both comparison sides, condition, index, int()/float()/string(), next to a capture on either side, parenthesised, settime, string concatenation with a literal / a capture, comparison with a string capture); compiled with and without the optimiser, run on 5 lines, stores compared bit-exactly",
  "deeper trees are not enumerated; the unoptimised compile is the reference (differential oracle), so a defect shared by both pipelines is invisible here (C01 covers it)",
  "exhaustive bounded program enumeration with a differential oracle on the real compiler and VM", "§3 C02"),
 ("C20", "gosim", "exploration",
  "all schedules with at most 2 (thorough 3-4) deviations from the default schedule of {fan-out, VM run loops, line feeder, reloader(s)} on the instrumented real Runtime/VM/Store, for 1 reload x 3 lines, 2 reloads x 3 lines and 1 reload x 1 line (<=3, thorough 5, deviations; thorough also 4 and 2 lines): every line counted once by the shared counter, by exactly one program version, gauge writes in arrival order",
  "scheduling points are the synchronisation operations (mutex, rwmutex, waitgroup, atomics, channel ops, go) of metrics, datum, runtime and vm; code between two points runs atomically; deviation bound, not full interleaving coverage; a shutdown hang when a reload lands after end of input is observed but outside this property's statement",
  "stateless model checking of the implementation under a controlled scheduler (iterative deviation bounding, DFS, replay-confirmed counterexamples)", "§3 C20"),
 ("C03", "seqx", "exploration",
  "all byte strings of length<=2, all token sequences of length<=3 (thorough 4) over a 60-token alphabet, every prefix and single-token deletion (thorough: duplication, 4 replacements) of every example program, nesting families of depth 1..300 for six constructs (across the recursion limit), regex lengths across 1024, unterminated strings/regexes, every ordered forest of <=7 statements over {next, @a{}, @b{}, def a{}, def b{}} (quick: pruned to definitions containing a next; about 200 000 programs): no panic, no process-killing fatal error (the enumeration runs in a supervised child process; an input in flight when it dies is re-run alone to attribute the crash), exactly one of {code, non-empty errors}, termination (30 s watchdog, twice), identical second compile",
  "arbitrary long inputs are not enumerated; termination is judged by a generous watchdog, never by a short deadline",
  "exhaustive small-scope input enumeration plus systematic single-edit neighbourhoods of a corpus, on the real compiler", "§3 C03"),
 ("C05", "seqx", "exploration",
  "12 program families built around the state a VM carries between lines (strptime memo, time register, terminate flag incl. stop as the last instruction of a block and of the program, match registers, matched flag, runtime errors) × all (history, line) pairs with |history|<=3 (thorough 4) over each family's 4-6 line alphabet; differential oracle: VM with history vs a freshly compiled VM populated with the same metric values; values and the datum stamps (processing-time stamps masked) are compared",
  "histogram metrics are not in the families (their state cannot be populated through the public API); processing-time stamps differ between the two VMs by construction and are masked; stamps set by the program are compared",
  "exhaustive bounded history enumeration with a differential oracle on the real VM", "§3 C05"),
 ("C07", "seqx", "exploration",
  "one program with a strptime site per layout (11 layouts incl. one whose layout plus value exceed 64 bytes), a settime site per value (7) and a plain site; all line sequences of length<=2 (thorough 3) × 4 zones × syslog-current-year on/off, plus a run crossing the memo size; oracle is time.Parse/ParseInLocation with the documented year substitution, and a clock bracket for processing time",
  "layout and value families are fixed finite sets; the yearless substitution reads the same clock as the VM",
  "exhaustive bounded enumeration of configurations and line sequences against the standard library as specification", "§3 C07"),
 ("C08", "seqx", "exploration",
  "all ordered pairs of label tuples (arity 1-2) over all strings up to length 2 (thorough 3) of {a,-,\\,0xFF}, and all tuples of arity 3-4 in one metric: create/find/write/expire/delete one tuple while observing the other, and garbage collections with only one of the two marked / overdue, on the real Metric and Store",
  "small-scope: longer label strings are not enumerated; the alphabet contains the separator and the escape character of the key encoding, which is what collisions are made of",
  "exhaustive small-scope enumeration of input pairs on the real code", "§3 C08"),
 ("C09", "seqx", "model_checking",
  "explicit-state BFS to fixpoint over histories of {get/create, write, increment, remove, expire, remove-oldest, wrong-arity variants, take-over of the data by a re-registered declaration through Store.Add} on a 3-tuple universe (thorough: 4) for every metric kind/type/arity family (incl. a 0-key counter and label values holding the key encoding's escape and separator characters); every transition runs the real Metric and is compared (enumeration, LabelValues, JSON, errors, slice/index consistency) with an ordered-list model",
  "value domain bounded (int values 0..2, at most two observations per histogram datum) so that the state space is finite; states are de-duplicated on the model state plus a reflective dump of the Metric object graph, so hidden implementation state is not merged away",
  "explicit-state model checking (BFS with state dedupe) of the real code against a reference model", "§3 C09"),
 ("C10", "seqx", "exploration",
  "all stores with a limited metric (limit 0-3, thorough 0-4) of 0-4 (thorough 5) data with every age/expiry-mark combination (ties included) plus bystanders, in three modes (plain; with the remaining data re-marked between two collections; a limited text metric); real Store.Gc; survivors checked against a set-valued reference",
  "Gc reads the wall clock: stamps are placed with 30-minute margins so clock drift cannot flip a verdict; the boundary age == expiry is therefore not exercised",
  "exhaustive small-scope enumeration of store contents on the real code", "§3 C10"),
 ("C15", "seqx", "exploration",
  "every byte string up to length 6 (thorough 8) over {LF, CR, 'a', 0xC3, 0xA9}, every composition into reads, every buffer size in {1,2,3,4,8}, EOF separate or with the last chunk, through the real LineReader, compared with bytes.Split semantics",
  "small-scope: longer streams and larger buffers are not enumerated; the reader has no state beyond buf/off, whose interesting transitions (grow, reslice, CR before LF across a read boundary) all occur within the bound",
  "exhaustive small-scope input/chunking enumeration on the real code", "§3 C15"),
 ("C21", "seqx", "exploration",
  "all sorted boundary lists of length 2-3 over {-1,0,0.5,1,2} × all observation sequences of length <=2 (thorough 3) over boundaries, their float neighbours, -5, 1e300, ±Inf, NaN, through a compiled histogram program, the VM and the Prometheus exposition of one exporter scraped before the first and after every observation, with processing-time stamps and with one fixed stamp for all observations",
  "boundary lists longer than 3 and other boundary values are not enumerated",
  "exhaustive small-scope enumeration of declarations and observation sequences on the real compiler/VM/exporter", "§3 C21"),
 ("C12", "gosim", "fault_enumeration",
  "for each of 7 exporter entry points (Collect, HandleVarz, HandleGraphite, HandleJSON, writeSocketMetrics x {graphite, statsd, collectd}) on a store of 4 metrics x 3 label sets: every unrepresentable position (metric x {invalid name, key prog, invalid key, empty key}, metric x label set x non-UTF-8 value), a write failure at every k-th write of the fault-free run, cancellation before the request and at every k-th write (thorough: defect x write-failure pairs), each under all schedules with <=1 (thorough 2) deviations of the instrumented metrics/datum/exporter packages; afterwards TryLock succeeds on every metric and both store locks, no controlled thread is left blocked, VM-style GetDatum on every metric and a fault-free export of every format complete",
  "Exporter.Write/Gather and PushMetrics (library goroutines, real sockets) are not driven; Collect and writeSocketMetrics, which they call, are; HTTP handlers are called directly with a scripted ResponseWriter",
  "exhaustive fault-point enumeration under a controlled scheduler (exact end-state oracle: all locks free, no thread parked)", "§3 C12"),
 ("C13", "seqx", "exploration",
  "all single-metric stores over 7 kind/type shapes x names {foo, foo-bar, foo-bar-baz, 9bad} x key lists {[], [a], [a,b], [a-b], [prog], [le]} x all label-set contents of size<=2 over {x, empty, 0xFF} x value rotations (ints, floats incl. +-Inf/NaN/1e300, histogram observation sets; bucket ranges in declared and shuffled order, fractional and 1e6 bounds), all pairs (thorough: a slice of triples) incl. same-name metrics of two programs, x prog label on/off x timestamps on/off, filtered by the property's precondition; Exporter.Write output parsed with expfmt.TextParser and compared as a set with series computed independently from the store",
  "store domain is small-scope; expfmt's parser is trusted as the definition of valid exposition text",
  "exhaustive small-scope enumeration of stores against the exposition-format parser of the standard client library", "§3 C13"),
 ("C22", "seqx", "exploration",
  "all single-metric stores over 7 kind/type shapes x key lists {[], [a], [b,a]} x all label-set contents of size<=2 over {x, y%d, z1} x value rotations (ints, floats incl. non-finite, strings incl. control characters, quotes and backslashes, histogram observation sets) and pairs with a second program's metric, x prefix x hostname; formats varz, graphite (HTTP and push formatter), statsd, collectd, JSON; each output parsed by an independent per-format parser: exactly one well-formed record per (metric, label set) in scope carrying that label set's own value and timestamp",
  "label values are free of blanks and of the target formats' separators (the property's precondition); kinds outside a format's scope are neither required nor forbidden",
  "exhaustive small-scope enumeration of stores with independent per-format parsers as oracle", "§3 C22"),
 ("C06", "hsx", "model_checking",
  "explicit-state BFS (depth 4 for 2 program names x 8 versions, depth 3 for 3 names; thorough 5/4/6) over histories of {load(version as name), unload(name), line} on the real Runtime under the controlled scheduler; versions all declare `foo` (int counter x2 sources, float counter, gauge, text, dimensioned counter, one raising runtime errors, one that does not compile); per transition the store contents and the Prometheus samples (real Collect) of every program are compared with those of the history projected onto that program alone on a fresh Runtime (differential oracle); the only tolerated interaction is a kind-clash refusal",
  "default (deviation-free) schedule with a quiescence barrier after each step; states are de-duplicated on observable state plus a reflective dump of the whole Runtime object graph (unexported fields included), so hidden implementation state is not merged away",
  "explicit-state model checking of the implementation (multi-process BFS, replay from the initial state, differential oracle)", "§3 C06"),
 ("C14", "hsx", "model_checking",
  "explicit-state BFS from 'V0 loaded' (depth 4-5; thorough 5-7) over histories of {load(Vi) for 10 versions of one file: identical, comment appended, declaration moved, kind / value type / keys changed, syntax error, name clashing with another program, body-only edit; lines creating label sets, one with an old stamp and pending expiry, marking expiry; Store.Gc; unload}, with and without a second program, with OmitMetricSource, with a metric size limit, with loads through LoadAllPrograms on a program directory, for a scalar counter next to the dimensioned one, and for histogram declarations (same buckets, one boundary changed, one added; lines observing values): identical source changes neither store nor VM identity; a failed load leaves store and VM untouched and stays invisible in every continuation (differential: same history without the failed loads); a kept declaration keeps label sets, values and expiry marks; no two registered metrics of the program share a name and a label set; every metric's slice and index agree; a registered histogram's data are bucketed by the declared boundaries and its bucket counts sum to its count",
  "default schedule with quiescence barriers (reload racing a line in flight is C20); export observed as the store contents registered for the program; state key includes a reflective dump of the Runtime object graph",
  "explicit-state model checking of the implementation (multi-process BFS, replay from the initial state, invariants + differential oracle)", "§3 C14"),
 ("C16", "hsx", "model_checking",
  "all applicable histories of length <=5 (pre-existing content: 4; thorough 6/5) over {append line, append fragment, append CRLF line, truncate, rename+create, copy+truncate, delete, recreate, poll} on a real file (tmpfs) tailed through the real Tailer and fileStream under the controlled scheduler, the tailer observing every step (stream wake, pattern poll, stream wake, each to quiescence); list model: delivered = lines appended after tailing began, in order, once each; a fragment pending when its generation ends is delivered once on its own; checked after the last step and after stopping the tailer",
  "default schedule only (the property fixes the observation order); no state merging because the reader's buffer is a goroutine local; harness wakers replace the poll timers",
  "explicit-state exploration of the implementation over operation histories on a real file system (multi-process BFS, replay from the initial state, list reference model)", "§3 C16"),
 ("C18", "hsx", "model_checking",
  "all applicable histories of length <=4 (thorough 5-6) from the empty tree and from 'd/a.log created and polled' over {create, delete, append unique line (+stream wake), rename to a free name (+stream wake), mkdir/rmdir of a plain and of a pattern-matching directory name, wake streams, poll patterns} on {d/a.log, d/b.log, d/a.log.gz, d/sub/c.log, d/x.log/} for 6 (thorough 8) pattern/ignore configurations (single glob, overlapping globs, relative+absolute spelling, nested+flat with ignore regex, ignore regex anchored at the start of the name, ignore regex matching a directory name) through the real Tailer under the controlled scheduler; after a pattern poll every existing regular file matching a pattern and not ignored has a stream, nothing that never qualified has one, log_count = number of streams; no line is ever delivered twice or under a path it was not written to; a line appended to a path whose stream is on that very file is delivered once the streams are woken",
  "stream wake-ups and pattern polls are explicit operations, so changes may pile up between polls; renames onto an existing file are rotations (C16) and not generated; unreadable files and symlinks not generated; no state merging",
  "explicit-state exploration of the implementation over file-system histories (multi-process BFS, replay from the initial state, set reference model)", "§3 C18"),
 ("C26", "hsx", "model_checking",
  "explicit-state BFS (depth 3; thorough 4-5) over histories of {write(file, contents T1/T2/broken/empty), remove, rename to/from another program name / a non-.mtail name / a dot-name, mkdir of a matching name, a program file replaced by a directory of its name} on a real program directory holding a.mtail, b.mtail, .h.mtail, notes.txt, sub/c.mtail, each step followed by LoadAllPrograms and a probe line on the real Runtime under the controlled scheduler; per transition: running set and the contents each program was compiled from equal the model, the probe line moves exactly the marker counter of each running version, prog_loads_total / prog_unloads_total move by the model's event counts",
  "LoadAllPrograms is called directly (as the SIGHUP handler does); states de-duplicated on the model plus a reflective dump of the Runtime object graph",
  "explicit-state model checking of the implementation over directory histories (multi-process BFS, replay from the initial state, map reference model)", "§3 C26"),
 ("C19", "gosim", "exploration",
  "all schedules with <=1 deviation (thorough: 2 for single-program scenarios) of the whole one-shot pipeline wired by mtail.New + Run (tailer, file streams, runtime fan-out, VMs, exporter; 8 instrumented packages) on real files, for program sets of size 1-2 (thorough: all, plus size 3) from {line counter, counter by getfilename(), per-file last-number gauge, a program whose last instruction is a stop, a program that raises runtime errors} x file sets of size 1-2 (thorough 3) from {empty, 1 line, 2 lines, unterminated last line, blank-line shapes, two lines of which the first stops the stopping program, an untailable match} (quick: a fixed fifth of the grid): Run returns, no thread is left blocked, lines_total = number of lines, final store = reference",
  "scheduling points are synchronisation operations; file reads are synchronous steps; program sets chosen so the expected store is independent of the file interleaving; the prometheus registry's DescribeByCollect goroutine takes the free store lock directly",
  "stateless model checking of the implementation under a controlled scheduler (iterative deviation bounding, DFS, replay-confirmed counterexamples)", "§3 C19"),
 ("C25", "hsx", "model_checking",
  "all applicable histories of length <=4 (thorough 5) over {append integer / non-integer line to log a or b, append a fragment (text, or a lone carriage return), truncate a log, write p.mtail as ok / runtime-error-raising / non-compiling / unregistrable version and reload, remove p.mtail and reload, poll} on the whole pipeline wired by mtail.New in tailing mode under the controlled scheduler, with and without a second program; after every step lines_total, log_lines_total per log, log_count, prog_runtime_errors_total, prog_loads_total, prog_unloads_total, prog_load_errors_total per program moved by exactly the number of such events in the history; after the pipeline is stopped the line counters have counted the pending fragments, once",
  "default schedule with quiescence barriers; counters read as deltas; reload = LoadAllPrograms called directly",
  "explicit-state exploration of the implementation over operation histories (multi-process BFS, replay from the initial state, event-count reference model)", "§3 C25"),
 ("C01", "mtlgen", "exploration",
  "every program of the typed families {every binary operator between 10 typed atoms (int/float literals, typed captures, metric reads) in 4 placements (assignment, +=, condition, index), relational, logical incl. short circuit with an erroring operand, string expressions and builtins (len tolower string int float strtol subst), operator-pair precedence with both parenthesisations, control-flow trees (nested conditionals, else, otherwise also inside else and after nested blocks, stop; a distinct trace counter per leaf), decorators with next at every position applied once/twice/nested, declarations x operations (counter/gauge, hidden, 0-2 keys, int/float; ++ -- += = del del-after read-back), effect;runtime-error;effect for 8 error kinds, capture scoping (two occurrences of the same / another pattern text applied with =~ to different strings, nested or in sequence, outer capture read before and after the inner block; the same text in two top-level blocks; a capture reached although its match was short-circuited away on this line)} (about 5 100 programs quick, 12 300 thorough) x every line sequence of length <=2 (thorough 3) over the family's alphabet: real compiler+VM against an independent reference interpreter after every line (store contents incl. label sets and expiry marks, runtime-error behaviour); plus 12 forms written as docs/Language.md shows them must be accepted",
  "the reference interpreter's choices where the language reference is silent are listed in engine/mtl/ASSUMPTIONS.md; timestamps are C07's subject",
  "exhaustive bounded program and input enumeration against an independent reference interpreter", "§3 C01"),
 ("C04", "mtlgen", "exploration",
  "every compiler-accepted program among: the typed families of C01; statements in context (every binary operator between 14 atoms, unary forms, constant trees, every builtin with 0-3 arguments from 17 argument forms) x 3 (thorough 5) placements (about 45 000 accepted quick, 106 000 thorough); 5 accepted-but-odd programs; the example programs over the first 60 lines of every test log; (dynamic) each run over its line alphabet twice with HardCrash set: no panic, every runtime error is one of the VM's explicit checked conditions (message classes); (static) explicit-state exploration of every reachable (program counter, abstract stack) state of each accepted program's bytecode (about 1.9 million abstract states thorough), abstract values = the run-time representations the VM distinguishes, transfer functions mirroring what vm.execute and compare() accept: no stack underflow, no operand of a representation the instruction does not accept, jump targets and table operands in range",
  "the static part covers all inputs of each program but only the enumerated programs; its transfer functions are a hand-written mirror of vm.execute (typed pops, type assertions, datum accessors) and must follow changes to it; dynamic faults are classified by error message",
  "exhaustive bounded program enumeration; per program explicit-state model checking of the bytecode's abstract state space plus execution on the real VM with a fault classifier", "§3 C04"),
 ("C23", "mtlgen", "exploration",
  "every checker-accepted program among: the typed families of C01; a format family (every declaration kind x hidden x as-renaming x 0-2 keys x limit x bucket lists incl. 1e-7 and 1e9 boundaries; string literals over {a, escaped quote, escaped backslash, \\n escape, blank} up to length 3 as values and index keys; 10 regexes with slashes/escapes in 4 positions; every pair of 11 arithmetic/bitwise operators with each explicit parenthesisation and none, against relational and logical operators; del/del-after, multi-key indexing, decorators, else/otherwise/stop, unary ~, small and negative literals, builtins); the example programs (about 6 200 programs): parse -> check -> unparse -> parse gives a structurally equal syntax tree (reflection over every exported field of the ast node types except positions, symbols, scopes, types), and formatting the result again gives identical text; the mfmt command built from the tree prints, and with -write leaves in the file, exactly that text (every program containing '%' and every 16th of the others)",
  "the comparison is on unchecked parse trees (the checker's inserted conversions are not syntax)",
  "exhaustive bounded program enumeration with a round-trip oracle on the real parser, checker and formatter", "§3 C23"),
 ("C24", "mtlgen", "exploration",
  "every single-site mutant of the accepted programs of the C01 families (quick: every k-th program of each family, about 400 bases and 10 000 mutants; thorough: all, about 12 300 bases) for the defect kinds {undeclared metric, capture index too high, unknown capture name, capture used in a sibling block, undefined decorator, next outside a decorator, one index key too many / too few, redeclared name, unused declaration, invalid regular expression, regular expression over the length limit (as one literal; as a literal plus a constant fragment, each within the limit, in three arrangements), integer division / modulus by the literal 0, and three of these defects inside an operand multiplied by the literal 0}: Compile returns errors and no code, at least one error position lies inside the source (file name, 1<=line<=lines, 1<=column<=line length+1), and Runtime.CompileAndRun refuses the program (error, no VM, prog_load_errors_total +1)",
  "mutation sites are the nodes of the generator's own syntax trees; decorator definitions themselves are not mutated",
  "exhaustive single-site mutation of an enumerated program corpus on the real compiler and loader", "§3 C24"),
 ("C11", "gosim", "exploration",
  "for every pair (thorough: also 8 triples) of activities from {VM processing three lines incl. creating and deleting label tuples, Store.Gc with a limit and an expired datum, Collect, HandleJSON, HandleVarz, HandleGraphite, push writer, reload (compile edited source, Store.Add, first line on the new VM)} on one store: all schedules with <=1 (thorough 2) deviations of the instrumented real metrics, datum, exporter and vm code, where every synchronisation operation and every access to a hooked shared field (Metric.LabelValues/labelValuesMap/Source/Limit/Buckets/Keys, LabelValue.Expiry/Value/Labels, Store.Metrics, String.Value, Buckets.Buckets/Count/Sum, VM.runtimeError/terminate/input) is a scheduling point; oracles: no pair of conflicting accesses unordered by the happens-before relation of mtail's own synchronisation (source-level vector clocks; scheduler hand-offs add no edge), no deadlock or panic, the audited counter equals the increments issued, an exported value of it lies in the range it ever held; plus a metric-level part: 2 threads x 1-2 operations and 3 threads x 1 operation from {find-or-create+increment, delete, expiry mark, locked enumeration, remove-oldest} on colliding keys of one Metric (252 scenarios), <=3 / <=2 (thorough 5 / 4) deviations, brute-force linearizability: results and final contents equal those of some sequential order of the same locked steps on an ordered-list model",
  "deviation bound, not full interleaving coverage; memory-order effects on fields that are not hooked are outside the detector; races are identified by field and the pair of (file, function) sites",
  "stateless model checking of the implementation under a controlled scheduler with a source-level happens-before race detector", "§3 C11"),
 ("C17", "gosim", "exploration",
  "two parts, both run by the one command. (1) schedule part, harness/C17S: mtail's real socket, datagram, named-pipe and stdin streams run under the controlled scheduler over a simulated kernel (engine/vnet: listen/accept/read/readfrom/deadline/close as scheduling points; its rules are first compared step by step with real unix, tcp, unixgram, udp and fifo objects by a conformance run); one environment thread executes every event order of {connect, write line / fragment / empty datagram, close} for 1 writer with <=2 (thorough 3) writes and 2 writers with <=1 (thorough 2) writes each, with a cancellation at every position (two writers quick: at the end), settled (stream idle and woken after every event) and free-running; all schedules of the stream's goroutines {accept loop, closer, connection handlers, deadline setters, reader} against it with <=3 (single writer; thorough 4) / <=1 (two writers; thorough 3) deviations; exact oracle from the bytes each simulated Read returned: delivered lines = their framing per connection, each once, in order, the remainder once at the end; everything written is read when the stream was idle after every event; the output ends only after cancellation (or, for a pipe, after its writers closed), every goroutine finishes, no deadlock, livelock (step limit with fair treatment of polling loops) or panic. (2) real-kernel part, harness/C17: the same kinds of event orders (1-2 writers, thorough 3; plus zero-length and 100 000 / 60 000-byte datagrams) on real kernel objects in crash-isolated worker processes, settled and burst, a failure having to reproduce three times",
  "part 1 owns the schedule but trusts the simulated kernel (kept small, conformance-checked on every run; read deadlines other than 'now' and short reads are not modelled; framing under all chunkings is C15); part 2 uses the real kernel but not a controlled schedule. Wake-ups are issued while the stream is otherwise idle. Standard input is driven in part 1 only",
  "stateless model checking of the implementation under a controlled scheduler over a conformance-checked simulated kernel (iterative deviation bounding, DFS, replay-confirmed counterexamples), plus exhaustive enumeration of environment event orders on real kernel objects", "§3 C17, §6, §8"),
]

ENGINES = [
 {"name": "seqx", "path": "engine/seqx", "kind_free_text": "bounded exhaustive enumeration of inputs and explicit-state BFS over operation histories of sequential code against reference models; every transition executes the real code"},
 {"name": "gosim", "path": "engine/vrt + engine/instrument", "kind_free_text": "source-level instrumentation (sync, atomic, go, channel operations, select; optionally the kernel seams of the log streams redirected to the simulated kernel engine/vnet) + cooperative controlled scheduler + stateless DFS with iterative preemption bounding over the real mtail code"},
 {"name": "hsx", "path": "engine/hsx + engine/vrt", "kind_free_text": "multi-process explicit-state BFS over operation histories of real mtail components running under the gosim scheduler (quiescence barrier after every step); every transition replays the history on a fresh instance in a worker process; states de-duplicated on observable state plus a reflective dump of the implementation object graph"},
 {"name": "mtlgen", "path": "engine/mtl + harness/shared/ctxgen", "kind_free_text": "exhaustive typed program enumerator and an independent reference interpreter for the mtail language"},
]

def main():
    checks = []
    for (pid, eng, lvl, text, note, tech, ref) in CHECKS:
        checks.append({
            "property_id": pid,
            "quick_cmd": "./run %s quick" % pid,
            "thorough_cmd": "./run %s thorough" % pid,
            "evidence_file": "evidence/%s.json" % pid,
            "replay_cmd_template": "./run %s quick --replay {path}" % pid,
            "engine": eng,
            "level_claimed": {"category": lvl, "text": text, "design_ref": ref},
            "level_note": note,
            "technique": tech,
        })
    claimed = {c[0] for c in CHECKS}
    allp = [json.loads(l)["id"] for l in open(os.path.join(V, "properties.jsonl"))]
    na = json.load(open(os.path.join(V, "tools", "not_applicable.json")))
    na_list = []
    for p in allp:
        if p in claimed:
            continue
        na_list.append({"property_id": p, "reason": na.get(p, "check not built yet in this session (work in progress; see DESIGN.md §7 build order)")})
    for e in ENGINES:
        e["serves_properties"] = sorted(c[0] for c in CHECKS if c[1] == e["name"])
    m = {
        "version": 1,
        "setup_cmd": "./run setup",
        "hooks": {
            "guard": "verif-overlay",
            "enable": "no source-level hooks: every check builds /repo's working tree with `go build -overlay` (virtual harness packages under internal/zverif, in-package accessor files zz_verif*.go, and for gosim checks instrumented copies of the listed packages); /repo is never written by a check",
            "baseline_off_cmd": "./run baseline-off",
            "source_commits": [],
            "add_only": True,
        },
        "engines": ENGINES,
        "checks": checks,
        "not_applicable": na_list,
        "notes": "fix: commits in /repo are listed in known_findings.json (status fixed); recorded defects have status known.",
    }
    json.dump(m, open(os.path.join(V, "MANIFEST.json"), "w"), indent=1)
    print("claimed:", sorted(claimed), "not claimed:", [x["property_id"] for x in na_list])

main()
