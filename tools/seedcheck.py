#!/usr/bin/env python3
"""Confirms a seeded property-breaking change and runs the /verif check against it.

  seedcheck.py <PROP> <seed-out-dir> <which: 1|2> <seed-name> [--suite] [--checks C02,C05]

Stage A (scratch worktree of /repo HEAD, removed afterwards): the patch applies,
the tree builds, the demonstration FAILS with the patch and PASSES without it;
with --suite the repository's whole suite is run with the patch (only the two
pre-existing dhcpd failures are tolerated).
Stage B: the registered check(s) are run with VERIF_REPO pointing at the patched
scratch worktree and VERIF_OUT_DIR at a scratch directory (so /repo and
/verif/evidence are untouched); detection = exit 1 with a VIOLATION line.
Results go to /verif/seeded/<seed-name>/ (patch.diff, demo, meta.json).
"""
import json, os, re, shutil, subprocess, sys, time
prop, outdir, which, name = sys.argv[1:5]
suite = "--suite" in sys.argv
checks = [prop]
tier = "quick"
for i, a in enumerate(sys.argv):
    if a == "--checks":
        checks = sys.argv[i + 1].split(",")
    if a == "--tier":
        tier = sys.argv[i + 1]
sfx = "" if which == "1" else which
patch = os.path.join(outdir, "patch%s.diff" % sfx)
demo = os.path.join(outdir, "demo%s_test.go" % sfx)
dpath_txt = open(os.path.join(outdir, "demo%s_path.txt" % sfx)).read()
m = re.search(r"((?:internal|cmd)/[\w/\-.]+_test\.go)", dpath_txt)
dpath = m.group(1)
env = dict(os.environ, GOFLAGS="-mod=mod", GOPROXY="off", GOSUMDB="off", GOTOOLCHAIN="local")
wt = "/var/tmp/seedchk/" + name
os.makedirs("/var/tmp/seedchk", exist_ok=True)
subprocess.run(["git", "-C", "/repo", "worktree", "remove", "--force", wt], capture_output=True)
subprocess.run(["git", "-C", "/repo", "worktree", "add", "--detach", wt, "HEAD"], check=True, capture_output=True)
meta = {"seed": name, "property": prop, "source": "independent sub-agent given only the property text and a scratch worktree", "repo_head": subprocess.run(["git", "-C", "/repo", "rev-parse", "--short", "HEAD"], capture_output=True, text=True).stdout.strip(), "ran": []}
def sh(cmd, cwd=wt, timeout=3000, e=env):
    t0 = time.time()
    r = subprocess.run(cmd, shell=True, cwd=cwd, env=e, capture_output=True, text=True, timeout=timeout)
    meta["ran"].append({"cmd": cmd, "rc": r.returncode, "s": round(time.time() - t0, 1)})
    return r
try:
    r = sh("git apply --3way %s || git apply %s" % (patch, patch))
    if r.returncode != 0:
        meta["status"] = "patch does not apply to current HEAD: " + r.stderr[-500:]
        raise SystemExit
    sh("git reset -q")  # --3way stages
    meta["files"] = sh("git diff --stat").stdout
    r = sh("go build ./... ")
    if r.returncode != 0:
        meta["status"] = "does not build: " + r.stderr[-500:]
        raise SystemExit
    shutil.copy(demo, os.path.join(wt, dpath))
    pkg = "./" + os.path.dirname(dpath)
    dm = re.findall(r"^func (Test\w+)\(", open(demo).read(), re.M)
    runpat = "^(" + "|".join(dm) + ")$"
    dsrc = open(demo).read()
    raceflag = "-race " if ("//go:build race" in dsrc or "go test -race" in dpath_txt or "with -race" in dsrc) else ""
    if raceflag:
        env["CGO_ENABLED"] = "1"
    r1 = sh("go test %s-vet=off -count=1 -run '%s' %s" % (raceflag, runpat, pkg), timeout=1800)
    meta["demo_with_patch"] = "FAIL" if r1.returncode != 0 else "PASS"
    meta["demo_with_patch_tail"] = (r1.stdout + r1.stderr)[-1500:]
    if suite:
        os.remove(os.path.join(wt, dpath))
        def suite_fails(pkgs="./..."):
            rs = sh("go test -vet=off -count=1 -timeout 25m %s 2>&1 | grep -E '^[[:space:]]*(FAIL|--- FAIL|ok|panic)' " % pkgs, timeout=3000)
            bad = []
            pk = set()
            for l in rs.stdout.splitlines():
                t = l.strip()
                if t.startswith("--- FAIL"):
                    name = t.split()[2]
                    if name in ("TestExamplePrograms", "TestFilePipeStreamComparison") or "dhcpd" in name:
                        continue
                    bad.append(name)
                elif t.startswith("FAIL") and len(t.split()) >= 2 and t.split()[1].startswith("github.com"):
                    pk.add(t.split()[1])
            return bad, pk
        bad, pk = suite_fails()
        flaky = []
        if bad:
            # tests that fail under load: run their packages once more on their own
            again = " ".join("./" + q.replace("github.com/google/mtail/", "") for q in pk) or "./internal/mtail"
            bad2, _ = suite_fails(again)
            flaky = [x for x in bad if x not in bad2]
            bad = [x for x in bad if x in bad2]
        meta["suite_with_patch"] = ("only the two pre-existing dhcpd subtests fail" + (" (load-related failures that passed on an immediate re-run of their package: %s)" % ", ".join(flaky) if flaky else "")) if not bad else "OTHER FAILURES: " + "; ".join(bad)[:800]
        shutil.copy(demo, os.path.join(wt, dpath))
    # stage B on the patched tree (demo file removed so the tree is exactly HEAD+patch)
    os.remove(os.path.join(wt, dpath))
    det = {}
    for ck in checks:
        od = "/var/tmp/seedchk/%s.out.%s" % (name, ck)
        shutil.rmtree(od, ignore_errors=True)
        os.makedirs(od)
        e2 = dict(env, VERIF_REPO=wt, VERIF_OUT_DIR=od)
        rc = sh("./run %s %s" % (ck, tier), cwd="/verif", timeout=3600, e=e2)
        viol = [l for l in rc.stdout.splitlines() if l.startswith("VIOLATION")]
        keys = [l.strip() for l in rc.stdout.splitlines() if l.strip().startswith("key=")]
        det[ck] = {"exit": rc.returncode, "violation_lines": len(viol), "first_keys": keys[:3], "tail": rc.stdout[-600:] if rc.returncode not in (0, 1) else ""}
        shutil.rmtree(od, ignore_errors=True)
    meta["checks"] = det
    meta["detected_by"] = [ck for ck, d in det.items() if d["exit"] == 1 and d["violation_lines"] > 0]
    # without the patch
    sh("git checkout -- . && git clean -fdq")
    shutil.copy(demo, os.path.join(wt, dpath))
    r2 = sh("go test %s-vet=off -count=1 -run '%s' %s" % (raceflag, runpat, pkg), timeout=1800)
    meta["demo_without_patch"] = "FAIL" if r2.returncode != 0 else "PASS"
    ok = meta["demo_with_patch"] == "FAIL" and meta["demo_without_patch"] == "PASS"
    meta["status"] = "confirmed" if ok else "NOT CONFIRMED"
except SystemExit:
    pass
finally:
    subprocess.run(["git", "-C", "/repo", "worktree", "remove", "--force", wt], capture_output=True)
sd = "/verif/seeded/" + name
os.makedirs(sd, exist_ok=True)
shutil.copy(patch, os.path.join(sd, "patch.diff"))
shutil.copy(demo, os.path.join(sd, "demo_test.go"))
open(os.path.join(sd, "demo_path.txt"), "w").write(dpath + "\n")
notes = os.path.join(outdir, "notes.md")
if os.path.exists(notes):
    shutil.copy(notes, os.path.join(sd, "agent_notes.md"))
old = {}
mp = os.path.join(sd, "meta.json")
if os.path.exists(mp):
    old = json.load(open(mp))
    for k in ("needs", "what", "breaks_property", "note", "reported_by_checks"):
        if k in old:
            meta.setdefault(k, old[k])
    if not suite and "suite_with_patch" in old:
        meta["suite_with_patch"] = old["suite_with_patch"]
json.dump(meta, open(mp, "w"), indent=1)
print(name, meta.get("status"), "demo:", meta.get("demo_with_patch"), "/", meta.get("demo_without_patch"), "suite:", meta.get("suite_with_patch", "-"), "detected_by:", meta.get("detected_by"))
