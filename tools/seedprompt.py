#!/usr/bin/env python3
"""Creates a scratch worktree of /repo for a seeding sub-agent and prints the prompt to give it.
usage: seedprompt.py C07 [suffix]"""
import json, os, subprocess, sys
pid = sys.argv[1]
suf = sys.argv[2] if len(sys.argv) > 2 else ""
wt = "/tmp/seed/%s%s" % (pid, suf)
out = wt + ".out"
if not os.path.isdir(wt):
    subprocess.run(["git", "-C", "/repo", "worktree", "add", "--detach", wt, "HEAD"], check=True, stdout=subprocess.DEVNULL, stderr=subprocess.DEVNULL)
os.makedirs(out, exist_ok=True)
prop = None
for l in open("/verif/properties.jsonl"):
    p = json.loads(l)
    if p["id"] == pid:
        prop = p
prop = {k: prop[k] for k in ("id", "title", "statement", "quantifier", "why_tests_cant", "anchors")}
avoid = ""
if suf:
    import glob
    prev = []
    for mp in sorted(glob.glob("/verif/seeded/%s-seed*/meta.json" % pid)):
        m = json.load(open(mp))
        if m.get("what"):
            prev.append("- " + m["what"] + " (" + (m.get("files") or "").strip().split("|")[0].strip() + ")")
    if prev:
        avoid = "\n\nOther people have already produced the following changes for this property; yours must be DIFFERENT (another site and another mechanism, not a variation of these):\n" + "\n".join(prev) + "\n"
print(f"""You are working on google/mtail (Go), a log-tailing daemon that compiles a small DSL to bytecode, runs it in a VM per log line and exports metrics. You have your own scratch git worktree of the repository at {wt} — work ONLY there. Never read or write /repo or /verif. The sandbox is offline; for every shell call first run:
  export GOFLAGS=-mod=mod GOPROXY=off GOSUMDB=off GOTOOLCHAIN=local
The full existing test suite is: cd {wt} && go test -vet=off -count=1 -timeout 25m ./...   (takes a few minutes). NOTE: on the unchanged worktree exactly two subtests fail for a reason unrelated to you (internal/mtail/testdata/anonymised_dhcpd_log is an empty file in this snapshot): TestExamplePrograms/examples/dhcpd... and TestFilePipeStreamComparison/examples/dhcpd... in ./internal/mtail — 'passing the suite' means: no failures other than these two pre-existing ones.

Here is a semantic property that mtail is supposed to satisfy:

{json.dumps(prop, indent=1)}

{avoid}
Your task: write a change to mtail's non-test Go source that BREAKS this property while (a) still compiling and (b) still passing the ENTIRE existing test suite, unedited (run it and confirm; do not edit or delete existing tests). The change should look like a realistic regression — a plausible refactoring slip, 'optimisation' or off-by-one that a maintainer could make — and it must need something SPECIFIC to manifest: a particular interleaving, a fault at a particular point, a multi-step sequence of operations, an unusual input, or two cooperating sites that each look fine alone. It must NOT be something ordinary use would expose at once (e.g. do not simply make a function always return wrong results). Keep the change small (a few lines to a few dozen lines).

Also write a demonstration: a new Go test file (new file, e.g. zz_seed_demo_test.go in the appropriate package directory) or small program that FAILS with your change and PASSES without it. Verify both directions yourself (save your change with `git diff > {out}/patch.diff`, revert with `git checkout -- .`, re-apply with `git apply {out}/patch.diff`; NEVER use `git stash`: the stash is shared between all worktrees of the repository and other people are working in sibling worktrees). The demonstration must be deterministic (fails every time with the change).

Deliverables (all under {out}/):
  patch.diff   — `git diff` of the non-test source change only (must apply with `git apply` on a clean checkout of HEAD)
  demo_test.go — the demonstration file; and demo_path.txt containing the repository-relative path where it must be placed (e.g. internal/metrics/zz_seed_demo_test.go) and the exact `go test` command to run it
  notes.md     — what the change does, why it breaks the property, what exactly is needed for it to manifest, and which commands you ran with their results (full suite pass with change; demo fails with change; demo passes without)
If you have time left after a fully verified first change, produce a second, independent one (different site and mechanism) as patch2.diff / demo2_test.go / demo2_path.txt, described in the same notes.md; each patch must apply on its own to a clean HEAD.
Leave the worktree clean at the end (git checkout -- . ; remove your demo files from it) — the files under {out}/ are what counts. In your final message give a 5-line summary per change.""")
