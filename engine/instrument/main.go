// instrument rewrites the listed mtail packages (read from the *current*
// working tree) so that every synchronisation operation goes through the vrt
// runtime.  It writes the rewritten files to -out and a JSON overlay map
// (original path -> rewritten path) to -mapout.  It fails loudly on any
// construct it does not know.
package main

import (
	"bytes"
	"encoding/json"
	"flag"
	"fmt"
	"go/ast"
	"go/format"
	"go/token"
	"go/types"
	"os"
	"path/filepath"
	"strconv"
	"strings"

	"golang.org/x/tools/go/ast/astutil"
	"golang.org/x/tools/go/packages"
)

const (
	vrtPath    = "github.com/google/mtail/internal/zverif/vrt"
	vsyncPath  = vrtPath + "/vsync"
	vatomPath  = vrtPath + "/vatomic"
	modulePath = "github.com/google/mtail/"
)

var failures []string

func failf(fset *token.FileSet, pos token.Pos, format string, a ...interface{}) {
	failures = append(failures, fmt.Sprintf("%s: %s", fset.Position(pos), fmt.Sprintf(format, a...)))
}

func main() {
	repo := flag.String("repo", "/repo", "")
	out := flag.String("out", "", "")
	mapout := flag.String("mapout", "", "")
	ovl := flag.String("overlay", "", "existing overlay json (for virtual files)")
	flag.BoolVar(&raceMode, "race", false, "wrap accesses to the configured shared fields in vrt.RdP/WrP")
	flag.BoolVar(&vnetMode, "vnet", false, "redirect the kernel seams of internal/tailer/logstream (net.Listen, net.ListenPacket, fifoOpen's os.OpenFile / os.Stdin) to the simulated kernel")
	flag.Parse()
	var pats []string
	for _, p := range flag.Args() {
		pats = append(pats, modulePath+p)
	}
	cfg := &packages.Config{
		Mode: packages.NeedName | packages.NeedFiles | packages.NeedCompiledGoFiles | packages.NeedSyntax | packages.NeedTypes | packages.NeedTypesInfo | packages.NeedImports,
		Dir:  *repo,
		Env:  append(os.Environ(), "GOFLAGS=-mod=mod", "GOPROXY=off", "GOSUMDB=off", "GOTOOLCHAIN=local"),
	}
	_ = ovl
	pkgs, err := packages.Load(cfg, pats...)
	if err != nil {
		fmt.Println("instrument: load:", err)
		os.Exit(2)
	}
	if packages.PrintErrors(pkgs) > 0 {
		os.Exit(2)
	}
	m := map[string]string{}
	for _, p := range pkgs {
		for i, f := range p.Syntax {
			name := p.CompiledGoFiles[i]
			if strings.HasSuffix(name, "_test.go") {
				continue
			}
			changed := rewriteFile(p, f)
			if vnetMode && strings.HasSuffix(p.PkgPath, "internal/tailer/logstream") {
				if rewriteVnet(p, f, filepath.Base(name)) {
					changed = true
				}
			}
			if !changed {
				continue
			}
			var buf bytes.Buffer
			if err := format.Node(&buf, p.Fset, f); err != nil {
				fmt.Println("instrument: print", name, err)
				os.Exit(2)
			}
			rel, _ := filepath.Rel(*repo, name)
			dst := filepath.Join(*out, strings.ReplaceAll(rel, "/", "__"))
			if err := os.WriteFile(dst, buf.Bytes(), 0o644); err != nil {
				fmt.Println(err)
				os.Exit(2)
			}
			m[name] = dst
		}
	}
	if vnetMode {
		for _, k := range []string{"net.Listen", "net.ListenPacket", "os.OpenFile", "os.Stdin", "*os.File"} {
			if !vnetSeen[k] {
				failures = append(failures, "vnet: the kernel seam "+k+" was not found in internal/tailer/logstream (the stream code changed shape; the simulated kernel must be revisited)")
			}
		}
	}
	if len(failures) > 0 {
		for _, f := range failures {
			fmt.Println("instrument: unsupported construct:", f)
		}
		os.Exit(2)
	}
	b, _ := json.Marshal(m)
	if err := os.WriteFile(*mapout, b, 0o644); err != nil {
		fmt.Println(err)
		os.Exit(2)
	}
}

var raceMode, vnetMode bool

const vnetPath = "github.com/google/mtail/internal/zverif/vnet"

var vnetSeen = map[string]bool{}

// rewriteVnet redirects the four kernel seams of the logstream package to the
// simulated kernel: net.Listen, net.ListenPacket (anywhere in the package),
// and in fifostream.go os.OpenFile, os.Stdin and the type *os.File.
func rewriteVnet(p *packages.Package, f *ast.File, base string) bool {
	info := p.TypesInfo
	changed := false
	pkgOf := func(e ast.Expr) string {
		id, ok := e.(*ast.Ident)
		if !ok {
			return ""
		}
		if pn, ok := info.Uses[id].(*types.PkgName); ok {
			return pn.Imported().Path()
		}
		return ""
	}
	astutil.Apply(f, nil, func(c *astutil.Cursor) bool {
		switch n := c.Node().(type) {
		case *ast.StarExpr:
			if sel, ok := n.X.(*ast.SelectorExpr); ok && base == "fifostream.go" && pkgOf(sel.X) == "os" && sel.Sel.Name == "File" {
				c.Replace(&ast.SelectorExpr{X: ast.NewIdent("vnet"), Sel: ast.NewIdent("File")})
				vnetSeen["*os.File"] = true
				changed = true
			}
		case *ast.SelectorExpr:
			switch pkgOf(n.X) + "." + n.Sel.Name {
			case "net.Listen", "net.ListenPacket":
				n.X = ast.NewIdent("vnet")
				vnetSeen["net."+n.Sel.Name] = true
				changed = true
			case "os.OpenFile":
				if base == "fifostream.go" {
					n.X = ast.NewIdent("vnet")
					n.Sel = ast.NewIdent("OpenFifo")
					vnetSeen["os.OpenFile"] = true
					changed = true
				}
			case "os.Stdin":
				if base == "fifostream.go" {
					c.Replace(&ast.CallExpr{Fun: &ast.SelectorExpr{X: ast.NewIdent("vnet"), Sel: ast.NewIdent("Stdin")}})
					vnetSeen["os.Stdin"] = true
					changed = true
				}
			}
		}
		return true
	})
	if changed {
		astutil.AddNamedImport(p.Fset, f, "vnet", vnetPath)
	}
	return changed
}

// hooked lists the shared fields whose accesses are wrapped in race mode:
// "<package path suffix>.<struct type>" -> field names.
var hooked = map[string][]string{
	"internal/metrics.Metric":          {"LabelValues", "labelValuesMap", "Source", "Limit", "Buckets", "Keys"},
	"internal/metrics.LabelValue":      {"Expiry", "Value", "Labels"},
	"internal/metrics.Store":           {"Metrics"},
	"internal/metrics/datum.String":    {"Value"},
	"internal/metrics/datum.Int":       {"Value"},
	"internal/metrics/datum.Float":     {"Valuebits"},
	"internal/metrics/datum.BaseDatum": {"Time"},
	"internal/metrics/datum.Buckets":   {"Buckets", "Count", "Sum"},
	"internal/runtime.Runtime":         {"handles", "programErrors"},
	"internal/runtime/vm.VM":           {"runtimeError", "terminate", "input"},
}

// hookedField reports "Type.Field" if sel selects a hooked field.
func hookedField(info *types.Info, sel *ast.SelectorExpr) string {
	s, ok := info.Selections[sel]
	if !ok || s.Kind() != types.FieldVal {
		return ""
	}
	v, ok := s.Obj().(*types.Var)
	if !ok || !v.IsField() || v.Pkg() == nil {
		return ""
	}
	// find the struct type that declares the field
	recv := s.Recv()
	if p, ok := recv.(*types.Pointer); ok {
		recv = p.Elem()
	}
	named, ok := recv.(*types.Named)
	if !ok {
		return ""
	}
	// embedded promotion: walk the index path
	t := types.Type(named)
	idx := s.Index()
	for i := 0; i < len(idx)-1; i++ {
		st, ok := t.Underlying().(*types.Struct)
		if !ok {
			return ""
		}
		t = st.Field(idx[i]).Type()
		if p, ok := t.(*types.Pointer); ok {
			t = p.Elem()
		}
	}
	n, ok := t.(*types.Named)
	if !ok || n.Obj().Pkg() == nil {
		return ""
	}
	key := strings.TrimPrefix(n.Obj().Pkg().Path(), modulePath) + "." + n.Obj().Name()
	for _, f := range hooked[key] {
		if f == v.Name() {
			return n.Obj().Name() + "." + f
		}
	}
	return ""
}

func vrtCall(fn string, args ...ast.Expr) *ast.CallExpr {
	return &ast.CallExpr{Fun: &ast.SelectorExpr{X: ast.NewIdent("vrt"), Sel: ast.NewIdent(fn)}, Args: args}
}

// origOf maps the expressions generated for hooked fields back to the selector
// they replace, so that later type queries (range over a map field) still work.
var origOf = map[ast.Expr]ast.Expr{}

func typeOf(info *types.Info, e ast.Expr) types.Type {
	if o, ok := origOf[e]; ok {
		e = o
	}
	return info.TypeOf(e)
}

func isChan(info *types.Info, e ast.Expr) bool {
	t := typeOf(info, e)
	if t == nil {
		return false
	}
	_, ok := t.Underlying().(*types.Chan)
	return ok
}

func isMap(info *types.Info, e ast.Expr) bool {
	t := typeOf(info, e)
	if t == nil {
		return false
	}
	_, ok := t.Underlying().(*types.Map)
	return ok
}

func isConst(info *types.Info, e ast.Expr) bool {
	tv, ok := info.Types[e]
	return ok && tv.Value != nil
}

func isBuiltin(info *types.Info, fun ast.Expr, name string) bool {
	id, ok := fun.(*ast.Ident)
	if !ok || id.Name != name {
		return false
	}
	_, isB := info.Uses[id].(*types.Builtin)
	return isB
}

var tmpCounter int

func tmp(prefix string) *ast.Ident {
	tmpCounter++
	return ast.NewIdent(fmt.Sprintf("_vrt_%s%d", prefix, tmpCounter))
}

func rewriteFile(p *packages.Package, f *ast.File) bool {
	info := p.TypesInfo
	fset := p.Fset
	changed := false
	usesVrt := false
	// imports
	for _, im := range f.Imports {
		path, _ := strconv.Unquote(im.Path.Value)
		switch path {
		case "sync":
			im.Path.Value = strconv.Quote(vsyncPath)
			if im.Name == nil {
				im.Name = ast.NewIdent("sync")
			}
			changed = true
		case "sync/atomic":
			im.Path.Value = strconv.Quote(vatomPath)
			if im.Name == nil {
				im.Name = ast.NewIdent("atomic")
			}
			changed = true
		}
	}
	skip := map[ast.Node]bool{}
	role := map[*ast.SelectorExpr]string{} // "w" = written, "skip" = address taken
	markLHS := func(e ast.Expr) {
		e = ast.Unparen(e)
		for {
			switch x := e.(type) {
			case *ast.IndexExpr:
				e = ast.Unparen(x.X)
				continue
			case *ast.SelectorExpr:
				if hookedField(info, x) != "" {
					role[x] = "w"
				}
				// a write through x.F.G also reads x.F: leave inner selectors as reads
			}
			break
		}
	}
	var funcStack []string
	pre := func(c *astutil.Cursor) bool {
		if fd, ok := c.Node().(*ast.FuncDecl); ok {
			name := fd.Name.Name
			if fd.Recv != nil && len(fd.Recv.List) == 1 {
				var b bytes.Buffer
				_ = format.Node(&b, fset, fd.Recv.List[0].Type)
				name = "(" + b.String() + ")." + name
			}
			funcStack = append(funcStack, name)
		}
		if raceMode {
			switch n := c.Node().(type) {
			case *ast.AssignStmt:
				for _, l := range n.Lhs {
					markLHS(l)
				}
			case *ast.IncDecStmt:
				markLHS(n.X)
			case *ast.CallExpr:
				if isBuiltin(info, n.Fun, "delete") && len(n.Args) == 2 {
					markLHS(n.Args[0])
				}
			case *ast.UnaryExpr:
				if n.Op == token.AND {
					if sel, ok := ast.Unparen(n.X).(*ast.SelectorExpr); ok && hookedField(info, sel) != "" {
						role[sel] = "skip"
					}
				}
			case *ast.RangeStmt:
				// `for i := range x.F` with a key/value assigned to hooked fields is not used by mtail
			}
		}
		if sel, ok := c.Node().(*ast.SelectStmt); ok {
			for _, cl := range sel.Body.List {
				cc := cl.(*ast.CommClause)
				switch s := cc.Comm.(type) {
				case nil:
				case *ast.SendStmt:
					skip[s] = true
				case *ast.ExprStmt:
					skip[ast.Unparen(s.X)] = true
				case *ast.AssignStmt:
					if len(s.Rhs) == 1 {
						skip[ast.Unparen(s.Rhs[0])] = true
					}
				}
			}
		}
		return true
	}
	post := func(c *astutil.Cursor) bool {
		switch n := c.Node().(type) {
		case *ast.FuncDecl:
			funcStack = funcStack[:len(funcStack)-1]
		case *ast.SelectorExpr:
			if !raceMode {
				return true
			}
			fld := hookedField(info, n)
			if fld == "" || role[n] == "skip" {
				return true
			}
			// the field must be addressable: base is a pointer or an addressable operand
			if tv, ok := info.Types[n.X]; ok {
				_, isPtr := tv.Type.Underlying().(*types.Pointer)
				if !isPtr && !tv.Addressable() {
					failf(fset, n.Pos(), "hooked field %s selected from a non-addressable value", fld)
					return true
				}
			}
			hook := "RdP"
			if role[n] == "w" {
				hook = "WrP"
			}
			pos := fset.Position(n.Pos())
			// sites are named by file and enclosing function (stable under edits elsewhere in the file)
			fn := "?"
			if len(funcStack) > 0 {
				fn = funcStack[len(funcStack)-1]
			}
			file := pos.Filename
			if i := strings.Index(file, "/internal/"); i >= 0 {
				file = file[i+10:]
			}
			site := file + ":" + fn
			call := vrtCall(hook, &ast.UnaryExpr{Op: token.AND, X: &ast.SelectorExpr{X: n.X, Sel: n.Sel}},
				&ast.BasicLit{Kind: token.STRING, Value: strconv.Quote(fld)}, &ast.BasicLit{Kind: token.STRING, Value: strconv.Quote(site)})
			repl := &ast.ParenExpr{X: &ast.StarExpr{X: call}}
			origOf[repl] = n
			c.Replace(repl)
			changed, usesVrt = true, true
		case *ast.GoStmt:
			c.Replace(rewriteGo(info, fset, n))
			changed, usesVrt = true, true
		case *ast.SendStmt:
			if skip[n] {
				return true
			}
			n.Chan = vrtCall("S", n.Chan)
			changed, usesVrt = true, true
		case *ast.UnaryExpr:
			if n.Op != token.ARROW || skip[n] {
				return true
			}
			n.X = vrtCall("R", n.X)
			changed, usesVrt = true, true
		case *ast.CallExpr:
			if isBuiltin(info, n.Fun, "close") && len(n.Args) == 1 {
				n.Args[0] = vrtCall("Cl", n.Args[0])
				changed, usesVrt = true, true
			} else if isBuiltin(info, n.Fun, "make") && len(n.Args) >= 1 && isChanType(info, n.Args[0]) {
				if len(n.Args) == 1 || (isConst(info, n.Args[1]) && constIsZero(info, n.Args[1])) {
					mk := &ast.CallExpr{Fun: n.Fun, Args: []ast.Expr{n.Args[0], &ast.BasicLit{Kind: token.INT, Value: "1"}}}
					c.Replace(vrtCall("MkU", mk))
				} else {
					if !isConst(info, n.Args[1]) {
						failf(fset, n.Pos(), "make(chan, n) with a non-constant capacity")
					}
					mk := &ast.CallExpr{Fun: n.Fun, Args: n.Args}
					c.Replace(vrtCall("MkB", mk))
				}
				changed, usesVrt = true, true
			} else if isBuiltin(info, n.Fun, "len") || isBuiltin(info, n.Fun, "cap") {
				if len(n.Args) == 1 && isChan(info, n.Args[0]) {
					failf(fset, n.Pos(), "len/cap of a channel")
				}
			} else if sel, ok := n.Fun.(*ast.SelectorExpr); ok && sel.Sel.Name == "After" {
				// time.After: the timer becomes a controlled thread, so that "the timer lands first" is a
				// schedule the explorer can choose (a timeout is never a substitute for synchronisation)
				if id, ok := sel.X.(*ast.Ident); ok {
					if pn, ok := info.Uses[id].(*types.PkgName); ok && pn.Imported().Path() == "time" {
						sel.X = ast.NewIdent("vrt")
						changed, usesVrt = true, true
					}
				}
			}
		case *ast.RangeStmt:
			if isChan(info, n.X) {
				c.Replace(rewriteRangeChan(fset, n))
				changed, usesVrt = true, true
			} else if isMap(info, n.X) {
				if r := rewriteRangeMap(info, fset, n); r != nil {
					c.Replace(r)
					changed, usesVrt = true, true
				}
			}
		case *ast.SelectStmt:
			c.Replace(rewriteSelect(info, fset, n))
			changed, usesVrt = true, true
		case *ast.DeferStmt:
			// defer close(ch): the operand is evaluated at the defer statement, the
			// close (and its scheduling point) must happen when the deferred call runs.
			if isBuiltin(info, n.Call.Fun, "close") && len(n.Call.Args) == 1 {
				inner, ok := n.Call.Args[0].(*ast.CallExpr)
				if !ok || len(inner.Args) != 1 {
					failf(fset, n.Pos(), "defer close of unknown shape")
					return true
				}
				t := tmp("c")
				lit := &ast.FuncLit{Type: &ast.FuncType{Params: &ast.FieldList{}}, Body: &ast.BlockStmt{List: []ast.Stmt{
					&ast.ExprStmt{X: &ast.CallExpr{Fun: n.Call.Fun, Args: []ast.Expr{vrtCall("Cl", t)}}}}}}
				c.Replace(&ast.BlockStmt{List: []ast.Stmt{
					&ast.AssignStmt{Lhs: []ast.Expr{t}, Tok: token.DEFINE, Rhs: []ast.Expr{inner.Args[0]}},
					&ast.DeferStmt{Call: &ast.CallExpr{Fun: lit}},
				}})
			} else {
				// any other deferred call must not carry channel operations in its operands
				for _, a := range n.Call.Args {
					ast.Inspect(a, func(x ast.Node) bool {
						if ce, ok := x.(*ast.CallExpr); ok {
							if se, ok := ce.Fun.(*ast.SelectorExpr); ok {
								if id, ok := se.X.(*ast.Ident); ok && id.Name == "vrt" && (se.Sel.Name == "Cl") {
									failf(fset, n.Pos(), "deferred call with a close operand")
								}
							}
						}
						return true
					})
				}
			}
		}
		return true
	}
	astutil.Apply(f, pre, post)
	if usesVrt {
		astutil.AddNamedImport(fset, f, "vrt", vrtPath)
	}
	if changed {
		// comments are positioned by offset; after surgery they may land in
		// odd places, so drop them (build constraints are re-checked below).
		for _, cg := range f.Comments {
			for _, cm := range cg.List {
				if strings.HasPrefix(cm.Text, "//go:build") || strings.HasPrefix(cm.Text, "// +build") {
					failf(fset, cm.Pos(), "build constraint in an instrumented file")
				}
			}
		}
		f.Comments = nil
		f.Doc = nil
		ast.Inspect(f, func(n ast.Node) bool {
			switch x := n.(type) {
			case *ast.FuncDecl:
				x.Doc = nil
			case *ast.GenDecl:
				x.Doc = nil
			case *ast.Field:
				x.Doc, x.Comment = nil, nil
			case *ast.ValueSpec:
				x.Doc, x.Comment = nil, nil
			case *ast.TypeSpec:
				x.Doc, x.Comment = nil, nil
			case *ast.ImportSpec:
				x.Doc, x.Comment = nil, nil
			}
			return true
		})
	}
	return changed
}

func isChanType(info *types.Info, e ast.Expr) bool {
	tv, ok := info.Types[e]
	if !ok || !tv.IsType() {
		return false
	}
	_, isC := tv.Type.Underlying().(*types.Chan)
	return isC
}

func constIsZero(info *types.Info, e ast.Expr) bool {
	tv := info.Types[e]
	return tv.Value != nil && tv.Value.String() == "0"
}

// go f(a, b)  =>  { _f := f; _a := a; _b := b; vrt.Go(func() { _f(_a, _b) }) }
func rewriteGo(info *types.Info, fset *token.FileSet, g *ast.GoStmt) ast.Stmt {
	call := g.Call
	var stmts []ast.Stmt
	fun := call.Fun
	if fl, ok := fun.(*ast.FuncLit); ok && len(call.Args) == 0 {
		return &ast.ExprStmt{X: vrtCall("Go", fl)}
	}
	if _, ok := fun.(*ast.FuncLit); !ok {
		// method value or function value: evaluate now
		if tv, ok := info.Types[fun]; ok && tv.IsBuiltin() {
			failf(fset, g.Pos(), "go with a builtin")
		}
		f := tmp("f")
		stmts = append(stmts, &ast.AssignStmt{Lhs: []ast.Expr{f}, Tok: token.DEFINE, Rhs: []ast.Expr{fun}})
		fun = f
	}
	var args []ast.Expr
	for _, a := range call.Args {
		if isConst(info, a) {
			args = append(args, a)
			continue
		}
		if id, ok := a.(*ast.Ident); ok && id.Name == "nil" {
			args = append(args, a)
			continue
		}
		t := tmp("a")
		stmts = append(stmts, &ast.AssignStmt{Lhs: []ast.Expr{t}, Tok: token.DEFINE, Rhs: []ast.Expr{a}})
		args = append(args, t)
	}
	inner := &ast.CallExpr{Fun: fun, Args: args, Ellipsis: call.Ellipsis}
	if call.Ellipsis != token.NoPos {
		inner.Ellipsis = 1
	}
	lit := &ast.FuncLit{Type: &ast.FuncType{Params: &ast.FieldList{}}, Body: &ast.BlockStmt{List: []ast.Stmt{&ast.ExprStmt{X: inner}}}}
	stmts = append(stmts, &ast.ExprStmt{X: vrtCall("Go", lit)})
	return &ast.BlockStmt{List: stmts}
}

// for k, v := range ch { body }  =>  for { k, ok := <-vrt.R(ch); if !ok { break }; body }
func rewriteRangeChan(fset *token.FileSet, r *ast.RangeStmt) ast.Stmt {
	ok := tmp("ok")
	var key ast.Expr = ast.NewIdent("_")
	tok := token.DEFINE
	if r.Key != nil {
		key = r.Key
		tok = r.Tok
		if tok == token.ASSIGN {
			// k = range ch : need ok declared separately
			failf(fset, r.Pos(), "range over channel with assignment (=) form")
		}
	}
	chTmp := tmp("c")
	recv := &ast.UnaryExpr{Op: token.ARROW, X: vrtCall("R", chTmp)}
	asg := &ast.AssignStmt{Lhs: []ast.Expr{key, ok}, Tok: token.DEFINE, Rhs: []ast.Expr{recv}}
	_ = tok
	brk := &ast.IfStmt{Cond: &ast.UnaryExpr{Op: token.NOT, X: ok}, Body: &ast.BlockStmt{List: []ast.Stmt{&ast.BranchStmt{Tok: token.BREAK}}}}
	body := append([]ast.Stmt{asg, brk}, r.Body.List...)
	loop := &ast.ForStmt{Body: &ast.BlockStmt{List: body}}
	return &ast.BlockStmt{List: []ast.Stmt{
		&ast.AssignStmt{Lhs: []ast.Expr{chTmp}, Tok: token.DEFINE, Rhs: []ast.Expr{r.X}},
		loop,
	}}
}

// for k, v := range m { body } => for _, k := range vrt.Keys(m) { v, ok := m[k]; if !ok { continue }; body }
func rewriteRangeMap(info *types.Info, fset *token.FileSet, r *ast.RangeStmt) ast.Stmt {
	if r.Key == nil {
		return nil // `for range m`: order is unobservable
	}
	if r.Tok != token.DEFINE {
		failf(fset, r.Pos(), "range over map with assignment (=) form")
		return nil
	}
	mTmp := tmp("m")
	pre := &ast.AssignStmt{Lhs: []ast.Expr{mTmp}, Tok: token.DEFINE, Rhs: []ast.Expr{r.X}}
	key := r.Key
	keyIsBlank := false
	if id, ok := key.(*ast.Ident); ok && id.Name == "_" {
		keyIsBlank = true
		key = tmp("k")
	}
	var head []ast.Stmt
	okv := tmp("ok")
	var val ast.Expr = ast.NewIdent("_")
	if r.Value != nil {
		val = r.Value
	}
	head = append(head, &ast.AssignStmt{Lhs: []ast.Expr{val, okv}, Tok: token.DEFINE, Rhs: []ast.Expr{&ast.IndexExpr{X: mTmp, Index: key}}})
	head = append(head, &ast.IfStmt{Cond: &ast.UnaryExpr{Op: token.NOT, X: okv}, Body: &ast.BlockStmt{List: []ast.Stmt{&ast.BranchStmt{Tok: token.CONTINUE}}}})
	_ = keyIsBlank
	nr := &ast.RangeStmt{Key: ast.NewIdent("_"), Value: key, Tok: token.DEFINE, X: vrtCall("Keys", mTmp), Body: &ast.BlockStmt{List: append(head, r.Body.List...)}}
	return &ast.BlockStmt{List: []ast.Stmt{pre, nr}}
}

func rewriteSelect(info *types.Info, fset *token.FileSet, s *ast.SelectStmt) ast.Stmt {
	var pre []ast.Stmt
	var cases []ast.Expr
	var clauses []ast.Stmt
	hasDefault := false
	idx := 0
	for _, cl := range s.Body.List {
		cc := cl.(*ast.CommClause)
		if cc.Comm == nil {
			hasDefault = true
			clauses = append(clauses, &ast.CaseClause{List: nil, Body: cc.Body})
			continue
		}
		chTmp := tmp("c")
		var first ast.Stmt
		switch c := cc.Comm.(type) {
		case *ast.SendStmt:
			pre = append(pre, &ast.AssignStmt{Lhs: []ast.Expr{chTmp}, Tok: token.DEFINE, Rhs: []ast.Expr{c.Chan}})
			hasCall := false
			ast.Inspect(c.Value, func(n ast.Node) bool {
				if _, ok := n.(*ast.CallExpr); ok {
					hasCall = true
				}
				return true
			})
			val := c.Value
			if hasCall {
				// Go evaluates the channel and the value of every send case once, in source order, on entry
				// to the select: hoisting the value right behind its channel keeps that order
				vTmp := tmp("v")
				pre = append(pre, &ast.AssignStmt{Lhs: []ast.Expr{vTmp}, Tok: token.DEFINE, Rhs: []ast.Expr{c.Value}})
				val = vTmp
			}
			cases = append(cases, vrtCall("CaseSend", chTmp))
			first = &ast.SendStmt{Chan: vrtCall("AbS", chTmp), Value: val}
		case *ast.ExprStmt:
			u, ok := ast.Unparen(c.X).(*ast.UnaryExpr)
			if !ok || u.Op != token.ARROW {
				failf(fset, c.Pos(), "select case of unknown form")
				continue
			}
			pre = append(pre, &ast.AssignStmt{Lhs: []ast.Expr{chTmp}, Tok: token.DEFINE, Rhs: []ast.Expr{u.X}})
			cases = append(cases, vrtCall("CaseRecv", chTmp))
			first = &ast.ExprStmt{X: &ast.UnaryExpr{Op: token.ARROW, X: vrtCall("AbR", chTmp)}}
		case *ast.AssignStmt:
			if len(c.Rhs) != 1 {
				failf(fset, c.Pos(), "select case of unknown form")
				continue
			}
			u, ok := ast.Unparen(c.Rhs[0]).(*ast.UnaryExpr)
			if !ok || u.Op != token.ARROW {
				failf(fset, c.Pos(), "select case of unknown form")
				continue
			}
			pre = append(pre, &ast.AssignStmt{Lhs: []ast.Expr{chTmp}, Tok: token.DEFINE, Rhs: []ast.Expr{u.X}})
			cases = append(cases, vrtCall("CaseRecv", chTmp))
			first = &ast.AssignStmt{Lhs: c.Lhs, Tok: c.Tok, Rhs: []ast.Expr{&ast.UnaryExpr{Op: token.ARROW, X: vrtCall("AbR", chTmp)}}}
		default:
			failf(fset, cc.Pos(), "select case of unknown form")
			continue
		}
		body := append([]ast.Stmt{first}, cc.Body...)
		clauses = append(clauses, &ast.CaseClause{List: []ast.Expr{&ast.BasicLit{Kind: token.INT, Value: strconv.Itoa(idx)}}, Body: body})
		idx++
	}
	hd := "false"
	if hasDefault {
		hd = "true"
	}
	args := append([]ast.Expr{ast.NewIdent(hd)}, cases...)
	sw := &ast.SwitchStmt{Tag: vrtCall("Select", args...), Body: &ast.BlockStmt{List: clauses}}
	return &ast.BlockStmt{List: append(pre, sw)}
}
