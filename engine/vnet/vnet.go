// Package vnet is the simulated kernel of the gosim check of C17: listening
// stream sockets, datagram sockets and named pipes whose blocking operations
// are scheduling points of the controlled scheduler (vrt.Await), so that the
// goroutines of mtail's socket, datagram and pipe streams — which otherwise
// park in the runtime's network poller — can be explored exhaustively.
//
// The instrumenter (-vnet) redirects exactly four calls of
// internal/tailer/logstream to this package: net.Listen, net.ListenPacket,
// os.OpenFile in fifoOpen and os.Stdin in fifoOpen.  Everything above those
// calls is mtail's own code.
//
// The model is deliberately small; each rule below is checked against the
// real kernel objects by harness/C17S/conformance.go before any exploration:
//
//	Read / ReadFrom / Accept on a closed object      -> "closed" error at once
//	Read / ReadFrom with an expired read deadline    -> timeout error at once, even when data is pending
//	Read with pending bytes                          -> all of them (up to len(p))
//	ReadFrom with pending datagrams                  -> exactly one datagram (a zero-length one gives 0, nil)
//	Read, nothing pending, peer closed (socket)      -> 0, io.EOF
//	Read, nothing pending, no writer (pipe)          -> 0, io.EOF
//	otherwise                                        -> blocks until one of the above holds
//	Accept                                           -> next pending connection; blocks when there is none
//	SetReadDeadline(now or earlier)                  -> expires the deadline, waking a blocked reader
//	Close                                            -> wakes a blocked reader / accepter with the "closed" error
//
// State is only ever touched by the thread holding the scheduler's token.
package vnet

import (
	"errors"
	"fmt"
	"io"
	"net"
	"os"
	"syscall"
	"time"

	"github.com/google/mtail/internal/zverif/vrt"
)

// File is what fifoOpen returns under -vnet (an *os.File satisfies it too).
type File interface {
	io.Reader
	io.Closer
	SetReadDeadline(t time.Time) error
}

type Kernel struct {
	Listeners map[string]*Listener
	Packets   map[string]*PacketConn
	Fifos     map[string]*Fifo
	Conns     []*Conn // server sides, in connection order
	Log       []string
}

var K = newKernel()

func newKernel() *Kernel {
	return &Kernel{Listeners: map[string]*Listener{}, Packets: map[string]*PacketConn{}, Fifos: map[string]*Fifo{}}
}

// Reset discards all simulated objects (start of an execution).
func Reset() { K = newKernel() }

func logf(format string, a ...interface{}) { K.Log = append(K.Log, fmt.Sprintf(format, a...)) }

var errAborted = errors.New("vnet: execution aborted")

// idle notices a polling loop: a read that is repeated although the previous
// one returned no data and nothing has changed since is a stutter step; the
// caller then yields to threads with real work (vrt.Spin).
type idle struct {
	ver     int
	seen    bool
	seenVer int
}

func (i *idle) touch() { i.ver++ }

func (i *idle) enter(what string) {
	if i.seen && i.seenVer == i.ver {
		vrt.Spin(what)
	}
}

func (i *idle) result(data bool) {
	if data {
		i.seen = false
		i.ver++
		return
	}
	i.seen, i.seenVer = true, i.ver
}

type addr struct{ network, s string }

func (a addr) Network() string { return a.network }
func (a addr) String() string  { return a.s }

func expired(t time.Time) (bool, bool) {
	if t.IsZero() {
		return false, true
	}
	if !t.After(time.Now()) {
		return true, true
	}
	return false, false
}

// ---------------------------------------------------------------------------
// stream sockets

type Listener struct {
	a       addr
	backlog []*Conn
	Closed  bool
}

func Listen(network, address string) (net.Listener, error) {
	if !vrt.Active() {
		return net.Listen(network, address)
	}
	vrt.Step("vnet listen")
	if l := K.Listeners[address]; l != nil && !l.Closed {
		return nil, &net.OpError{Op: "listen", Net: network, Err: os.NewSyscallError("bind", syscall.EADDRINUSE)}
	}
	l := &Listener{a: addr{network, address}}
	K.Listeners[address] = l
	logf("listen %s", address)
	return l, nil
}

func (l *Listener) Accept() (net.Conn, error) {
	vrt.Await("vnet accept", func() bool { return l.Closed || len(l.backlog) > 0 })
	if !vrt.Active() {
		return nil, errAborted
	}
	if l.Closed {
		return nil, &net.OpError{Op: "accept", Net: l.a.network, Addr: l.a, Err: net.ErrClosed}
	}
	c := l.backlog[0]
	l.backlog = l.backlog[1:]
	c.Accepted = true
	logf("accept conn%d", c.ID)
	return c, nil
}

func (l *Listener) Close() error {
	vrt.Step("vnet listener close")
	if l.Closed {
		return &net.OpError{Op: "close", Net: l.a.network, Addr: l.a, Err: net.ErrClosed}
	}
	l.Closed = true
	// connections never accepted are reset
	l.backlog = nil
	logf("listener close")
	return nil
}

func (l *Listener) Addr() net.Addr { return l.a }

// Conn is the server side of a connection.
type Conn struct {
	idle
	ID         int
	l          *Listener
	rbuf       []byte
	PeerClosed bool
	Closed     bool
	deadline   bool
	Accepted   bool
	Written    []byte // everything the client wrote
	Consumed   []byte // everything Read returned
}

func (c *Conn) Read(p []byte) (int, error) {
	c.enter("vnet conn read again, nothing new")
	vrt.Await("vnet conn read", func() bool { return c.Closed || c.deadline || len(c.rbuf) > 0 || c.PeerClosed })
	if !vrt.Active() {
		return 0, errAborted
	}
	c.result(!c.Closed && !c.deadline && len(c.rbuf) > 0)
	switch {
	case c.Closed:
		return 0, &net.OpError{Op: "read", Net: c.l.a.network, Addr: c.l.a, Err: net.ErrClosed}
	case c.deadline:
		return 0, &net.OpError{Op: "read", Net: c.l.a.network, Addr: c.l.a, Err: os.ErrDeadlineExceeded}
	case len(c.rbuf) > 0:
		n := copy(p, c.rbuf)
		c.Consumed = append(c.Consumed, c.rbuf[:n]...)
		c.rbuf = c.rbuf[n:]
		logf("conn%d read %d", c.ID, n)
		return n, nil
	}
	logf("conn%d read EOF", c.ID)
	return 0, io.EOF
}

func (c *Conn) Write(p []byte) (int, error) { return len(p), nil }

func (c *Conn) Close() error {
	vrt.Step("vnet conn close")
	if c.Closed {
		return &net.OpError{Op: "close", Net: c.l.a.network, Addr: c.l.a, Err: net.ErrClosed}
	}
	c.Closed = true
	c.touch()
	logf("conn%d close", c.ID)
	return nil
}

func (c *Conn) LocalAddr() net.Addr  { return c.l.a }
func (c *Conn) RemoteAddr() net.Addr { return addr{c.l.a.network, fmt.Sprintf("peer%d", c.ID)} }

func (c *Conn) SetDeadline(t time.Time) error { return c.SetReadDeadline(t) }

func (c *Conn) SetReadDeadline(t time.Time) error {
	vrt.Step("vnet conn deadline")
	if c.Closed {
		return &net.OpError{Op: "set", Net: c.l.a.network, Addr: c.l.a, Err: net.ErrClosed}
	}
	e, ok := expired(t)
	if !ok {
		panic("vnet: read deadlines in the future are not modelled")
	}
	c.deadline = e
	c.touch()
	logf("conn%d deadline %v", c.ID, e)
	return nil
}

func (c *Conn) SetWriteDeadline(t time.Time) error { return nil }

// Client is the harness side of a connection.
type Client struct{ C *Conn }

// Dial connects to a simulated listener (the handshake completes without the
// server accepting, as in the kernel).
func Dial(address string) (*Client, error) {
	vrt.Step("vnet dial")
	l := K.Listeners[address]
	if l == nil || l.Closed {
		return nil, syscall.ECONNREFUSED
	}
	c := &Conn{ID: len(K.Conns), l: l}
	K.Conns = append(K.Conns, c)
	l.backlog = append(l.backlog, c)
	logf("dial conn%d", c.ID)
	return &Client{c}, nil
}

func (cl *Client) Write(p []byte) (int, error) {
	vrt.Step("vnet client write")
	if cl.C.Closed || (cl.C.l.Closed && !cl.C.Accepted) {
		return 0, syscall.EPIPE
	}
	cl.C.rbuf = append(cl.C.rbuf, p...)
	cl.C.Written = append(cl.C.Written, p...)
	cl.C.touch()
	logf("conn%d client write %q", cl.C.ID, p)
	return len(p), nil
}

func (cl *Client) Close() error {
	vrt.Step("vnet client close")
	cl.C.PeerClosed = true
	cl.C.touch()
	logf("conn%d client close", cl.C.ID)
	return nil
}

// ---------------------------------------------------------------------------
// datagram sockets

type Datagram struct {
	From int
	Data []byte
}

type PacketConn struct {
	idle
	a        addr
	queue    []Datagram
	Closed   bool
	deadline bool
	Consumed []Datagram // in the order ReadFrom returned them
	Sent     []Datagram
}

func ListenPacket(network, address string) (net.PacketConn, error) {
	if !vrt.Active() {
		return net.ListenPacket(network, address)
	}
	vrt.Step("vnet listenpacket")
	if p := K.Packets[address]; p != nil && !p.Closed {
		return nil, &net.OpError{Op: "listen", Net: network, Err: os.NewSyscallError("bind", syscall.EADDRINUSE)}
	}
	p := &PacketConn{a: addr{network, address}}
	K.Packets[address] = p
	logf("listenpacket %s", address)
	return p, nil
}

func (p *PacketConn) ReadFrom(b []byte) (int, net.Addr, error) {
	p.enter("vnet readfrom again, nothing new")
	vrt.Await("vnet readfrom", func() bool { return p.Closed || p.deadline || len(p.queue) > 0 })
	if !vrt.Active() {
		return 0, nil, errAborted
	}
	p.result(!p.Closed && !p.deadline)
	switch {
	case p.Closed:
		return 0, nil, &net.OpError{Op: "read", Net: p.a.network, Addr: p.a, Err: net.ErrClosed}
	case p.deadline:
		return 0, nil, &net.OpError{Op: "read", Net: p.a.network, Addr: p.a, Err: os.ErrDeadlineExceeded}
	}
	d := p.queue[0]
	p.queue = p.queue[1:]
	n := copy(b, d.Data)
	p.Consumed = append(p.Consumed, Datagram{d.From, d.Data[:n]})
	logf("readfrom %d bytes of sender %d", n, d.From)
	return n, addr{p.a.network, fmt.Sprintf("sender%d", d.From)}, nil
}

func (p *PacketConn) WriteTo(b []byte, a net.Addr) (int, error) { return len(b), nil }

func (p *PacketConn) Close() error {
	vrt.Step("vnet packetconn close")
	if p.Closed {
		return &net.OpError{Op: "close", Net: p.a.network, Addr: p.a, Err: net.ErrClosed}
	}
	p.Closed = true
	p.touch()
	logf("packetconn close")
	return nil
}

func (p *PacketConn) LocalAddr() net.Addr { return p.a }

func (p *PacketConn) SetDeadline(t time.Time) error { return p.SetReadDeadline(t) }

func (p *PacketConn) SetReadDeadline(t time.Time) error {
	vrt.Step("vnet packetconn deadline")
	if p.Closed {
		return &net.OpError{Op: "set", Net: p.a.network, Addr: p.a, Err: net.ErrClosed}
	}
	e, ok := expired(t)
	if !ok {
		panic("vnet: read deadlines in the future are not modelled")
	}
	p.deadline = e
	p.touch()
	logf("packetconn deadline %v", e)
	return nil
}

func (p *PacketConn) SetWriteDeadline(t time.Time) error { return nil }

// SendTo delivers one datagram of sender `from` (dropped when the socket is closed or absent).
func SendTo(address string, from int, data []byte) error {
	vrt.Step("vnet sendto")
	p := K.Packets[address]
	if p == nil {
		return syscall.ECONNREFUSED
	}
	d := Datagram{from, append([]byte{}, data...)}
	p.Sent = append(p.Sent, d)
	if p.Closed {
		logf("sendto sender %d %q: socket closed", from, data)
		return syscall.ECONNREFUSED
	}
	p.queue = append(p.queue, d)
	p.touch()
	logf("sendto sender %d %q", from, data)
	return nil
}

// ---------------------------------------------------------------------------
// named pipes (read end opened O_NONBLOCK, as fifoOpen does) and standard input

type Fifo struct {
	idle
	path     string
	buf      []byte
	Writers  int
	Closed   bool
	deadline bool
	Written  []byte
	Consumed []byte
	Opened   int // read ends opened
}

func fifoAt(path string) *Fifo {
	f := K.Fifos[path]
	if f == nil {
		f = &Fifo{path: path}
		K.Fifos[path] = f
	}
	return f
}

// OpenFifo stands in for os.OpenFile(path, O_RDONLY|O_NONBLOCK) on a named pipe.
func OpenFifo(path string, flag int, perm os.FileMode) (File, error) {
	if !vrt.Active() {
		return os.OpenFile(path, flag, perm)
	}
	if flag&syscall.O_NONBLOCK == 0 || flag&(os.O_WRONLY|os.O_RDWR) != 0 {
		panic("vnet: fifoOpen no longer opens the pipe read-only and non-blocking; the model does not cover that")
	}
	vrt.Step("vnet open fifo")
	f := fifoAt(path)
	f.Opened++
	logf("open fifo %s", path)
	return f, nil
}

// Stdin stands in for os.Stdin in fifoOpen: a pipe whose read end is already open.
func Stdin() File {
	if !vrt.Active() {
		return os.Stdin
	}
	f := fifoAt("-")
	f.Opened++
	return f
}

func (f *Fifo) Read(p []byte) (int, error) {
	f.enter("vnet fifo read again, nothing new")
	vrt.Await("vnet fifo read", func() bool { return f.Closed || f.deadline || len(f.buf) > 0 || f.Writers == 0 })
	if !vrt.Active() {
		return 0, errAborted
	}
	f.result(!f.Closed && !f.deadline && len(f.buf) > 0)
	switch {
	case f.Closed:
		return 0, &os.PathError{Op: "read", Path: f.path, Err: os.ErrClosed}
	case f.deadline:
		return 0, &os.PathError{Op: "read", Path: f.path, Err: os.ErrDeadlineExceeded}
	case len(f.buf) > 0:
		n := copy(p, f.buf)
		f.Consumed = append(f.Consumed, f.buf[:n]...)
		f.buf = f.buf[n:]
		logf("fifo read %d", n)
		return n, nil
	}
	logf("fifo read EOF")
	return 0, io.EOF
}

func (f *Fifo) Close() error {
	vrt.Step("vnet fifo close")
	if f.Closed {
		return &os.PathError{Op: "close", Path: f.path, Err: os.ErrClosed}
	}
	f.Closed = true
	f.touch()
	logf("fifo close")
	return nil
}

func (f *Fifo) SetReadDeadline(t time.Time) error {
	vrt.Step("vnet fifo deadline")
	if f.Closed {
		return &os.PathError{Op: "set", Path: f.path, Err: os.ErrClosed}
	}
	e, ok := expired(t)
	if !ok {
		panic("vnet: read deadlines in the future are not modelled")
	}
	f.deadline = e
	f.touch()
	logf("fifo deadline %v", e)
	return nil
}

func (f *Fifo) String() string { return "vnet fifo " + f.path }

// FifoWriter is a write end held by the harness.
type FifoWriter struct {
	f      *Fifo
	closed bool
}

// OpenFifoWriter opens a write end (the read end is open already in every scenario, so it does not block).
func OpenFifoWriter(path string) *FifoWriter {
	vrt.Step("vnet open fifo writer")
	f := fifoAt(path)
	f.Writers++
	f.touch()
	logf("fifo writer open")
	return &FifoWriter{f: f}
}

func (w *FifoWriter) Write(p []byte) (int, error) {
	vrt.Step("vnet fifo write")
	if w.f.Closed {
		return 0, syscall.EPIPE
	}
	w.f.buf = append(w.f.buf, p...)
	w.f.Written = append(w.f.Written, p...)
	w.f.touch()
	logf("fifo write %q", p)
	return len(p), nil
}

func (w *FifoWriter) Close() error {
	vrt.Step("vnet fifo writer close")
	if !w.closed {
		w.closed = true
		w.f.Writers--
		w.f.touch()
		logf("fifo writer close")
	}
	return nil
}
