// Package gsx glues the gosim explorer (vrt) to the reporting layer (vlib):
// multi-process sharding, determinism self-checks, violation confirmation by
// replay, evidence aggregation.
package gsx

import (
	"bufio"
	"encoding/json"
	"fmt"
	"os"
	"os/exec"
	"runtime"
	"sort"
	"strings"
	"sync"
	"time"

	"github.com/google/mtail/internal/zverif/vlib"
	"github.com/google/mtail/internal/zverif/vrt"
)

type Config struct {
	Scenario string
	Bound    int
	MaxSteps int
	Deadline time.Time
	Body     func()
	// Check is called after every execution (deadlock/panic/step-limit are
	// checked by the engine first unless the Allow* flags are set).  It returns
	// a violation key ("" = none), an explanation and a rendering of the final
	// observation (for counting distinct outcomes).
	Check func(e vrt.Exec) (key, what, outcome string)
	// More optionally returns further violations of the same execution (key -> explanation), for
	// oracles that can find several independent findings in one execution (e.g. race pairs).
	More          func(e vrt.Exec) map[string]string
	AllowDeadlock bool
	AllowLeftover bool // threads still blocked when main returns are not an error
	// ByScenario shards whole scenarios over the workers (for checks made of many
	// small scenarios) instead of sharding the schedule tree of each scenario.
	ByScenario bool
}

type violation struct {
	Key     string   `json:"key"`
	What    string   `json:"what"`
	Choices []int    `json:"choices"`
	Trace   []string `json:"trace,omitempty"`
}

type scenResult struct {
	Scenario   string         `json:"scenario"`
	Stats      vrt.Stats      `json:"stats"`
	Outcomes   map[string]int `json:"outcomes"`
	Violations []violation    `json:"violations"`
	Nontrivial int            `json:"nontrivial"`
	Sample     []int          `json:"sample"`
	EngineErr  string         `json:"engine_error,omitempty"`
}

var (
	workerShard, workerN = -1, 0
	results              []scenResult
	scenarios            []string
)

func init() {
	if s := os.Getenv("VRT_WORKER"); s != "" {
		fmt.Sscanf(s, "%d/%d", &workerShard, &workerN)
	}
}

func Sorted(s []string) []string { sort.Strings(s); return s }

func trimTrace(t []string) []string {
	if len(t) > 400 {
		return append(append([]string{}, t[:200]...), append([]string{"…"}, t[len(t)-199:]...)...)
	}
	return t
}

func engineCheck(cfg Config, e vrt.Exec) (key, what string) {
	switch {
	case e.Res.Panic != "":
		first := strings.SplitN(e.Res.Panic, "\n", 2)[0]
		return "panic " + cfg.Scenario + ": " + first, e.Res.Panic
	case e.Res.Livelock:
		return "step-limit " + cfg.Scenario, fmt.Sprintf("execution exceeded %d scheduling steps (livelock or unbounded polling)", cfg.MaxSteps)
	case e.Res.Deadlock != "" && !cfg.AllowDeadlock:
		return "deadlock " + cfg.Scenario, "no thread is enabled and these threads have not finished:\n" + e.Res.Deadlock
	case len(e.Res.Leftover) > 0 && !cfg.AllowLeftover && e.Res.Deadlock == "":
		return "leaked-threads " + cfg.Scenario, "threads still blocked when the scenario returned:\n  " + strings.Join(e.Res.Leftover, "\n  ")
	}
	return "", ""
}

// Explore registers (parent) or runs (worker / replay) one scenario.
func Explore(c *vlib.Ctx, cfg Config) {
	scenarios = append(scenarios, cfg.Scenario)
	if c.ReplayOnly != "" {
		replay(c, cfg)
		return
	}
	if workerShard < 0 {
		return // parent: work happens in Finish
	}
	shard, nshards := workerShard, workerN
	if cfg.ByScenario {
		if (len(scenarios)-1)%workerN != workerShard {
			return
		}
		shard, nshards = 0, 1
	}
	res := scenResult{Scenario: cfg.Scenario, Outcomes: map[string]int{}}
	seenKey := map[string]bool{}
	confirm := func(e vrt.Exec, key string) (bool, []string) {
		for i := 0; i < 2; i++ {
			r, bad := vrt.Replay(e.Choices, cfg.MaxSteps, cfg.Body)
			if bad != "" {
				res.EngineErr = "replay of a violating schedule diverged: " + bad
				return false, nil
			}
			k, _ := engineCheck(cfg, vrt.Exec{Choices: e.Choices, Res: r})
			if k == "" {
				k, _, _ = cfg.Check(vrt.Exec{Choices: e.Choices, Res: r})
			}
			if k != key && cfg.More != nil {
				if _, ok := cfg.More(vrt.Exec{Choices: e.Choices, Res: r})[key]; ok {
					k = key
				}
			}
			if k != key {
				res.EngineErr = fmt.Sprintf("violation %q did not reproduce on replay (got %q): nondeterminism not owned by the engine", key, k)
				return false, nil
			}
			if i == 1 {
				return true, r.Trace
			}
		}
		return true, nil
	}
	if shard == 0 && (!cfg.ByScenario || len(scenarios)%37 == 1) {
		// determinism self-check on the default schedule
		r1, _ := vrt.Replay(nil, cfg.MaxSteps, cfg.Body)
		r2, _ := vrt.Replay(nil, cfg.MaxSteps, cfg.Body)
		if strings.Join(r1.Trace, "\n") != strings.Join(r2.Trace, "\n") {
			d := 0
			for d < len(r1.Trace) && d < len(r2.Trace) && r1.Trace[d] == r2.Trace[d] {
				d++
			}
			res.EngineErr = fmt.Sprintf("default schedule is not deterministic: traces differ at event %d (%v vs %v)", d, at(r1.Trace, d), at(r2.Trace, d))
		}
	}
	if res.EngineErr == "" {
		res.Stats = vrt.Explore(cfg.Bound, shard, nshards, cfg.Deadline, cfg.MaxSteps, cfg.Body, func(e vrt.Exec) {
			key, what := engineCheck(cfg, e)
			outcome := ""
			if key == "" {
				key, what, outcome = cfg.Check(e)
			} else {
				outcome = "engine:" + strings.SplitN(key, " ", 2)[0]
			}
			res.Outcomes[outcome]++
			if e.Deviations > 0 {
				res.Nontrivial++
			}
			if len(e.Choices) > len(res.Sample) {
				res.Sample = e.Choices
			}
			if key != "" && !seenKey[key] && res.EngineErr == "" {
				seenKey[key] = true
				ok, tr := confirm(e, key)
				if ok {
					res.Violations = append(res.Violations, violation{Key: key, What: what, Choices: e.Choices, Trace: trimTrace(tr)})
				}
			}
			if cfg.More != nil && res.EngineErr == "" {
				more := cfg.More(e)
				var mk []string
				for k := range more {
					mk = append(mk, k)
				}
				sort.Strings(mk)
				for _, k := range mk {
					if seenKey[k] {
						continue
					}
					seenKey[k] = true
					if ok, tr := confirm(e, k); ok {
						res.Violations = append(res.Violations, violation{Key: k, What: more[k], Choices: e.Choices, Trace: trimTrace(tr)})
					}
				}
			}
		})
		if res.Stats.Diverged != "" {
			res.EngineErr = "replay divergence: " + res.Stats.Diverged
		}
	}
	b, _ := json.Marshal(res)
	fmt.Println("GSXRESULT " + string(b))
}

func at(t []string, i int) string {
	if i < len(t) {
		return t[i]
	}
	return "<end>"
}

func replay(c *vlib.Ctx, cfg Config) {
	b, err := os.ReadFile(c.ReplayOnly)
	if err != nil {
		fmt.Println("ENGINE-ERROR", err)
		os.Exit(2)
	}
	var f struct {
		Key    string `json:"key"`
		Replay struct {
			Scenario string `json:"scenario"`
			Choices  []int  `json:"choices"`
		} `json:"replay"`
	}
	if err := json.Unmarshal(b, &f); err != nil {
		fmt.Println("ENGINE-ERROR", err)
		os.Exit(2)
	}
	if f.Replay.Scenario != cfg.Scenario {
		return
	}
	r, bad := vrt.Replay(f.Replay.Choices, cfg.MaxSteps, cfg.Body)
	for _, t := range r.Trace {
		fmt.Println("  ", t)
	}
	if bad != "" {
		fmt.Println("ENGINE-ERROR replay diverged:", bad)
		os.Exit(2)
	}
	key, what := engineCheck(cfg, vrt.Exec{Choices: f.Replay.Choices, Res: r})
	outcome := ""
	if key == "" {
		key, what, outcome = cfg.Check(vrt.Exec{Choices: f.Replay.Choices, Res: r})
	}
	fmt.Printf("replayed scenario %s: %d scheduling decisions, outcome %q\n", cfg.Scenario, len(r.Trace), outcome)
	if key != "" {
		c.Report(key, what, map[string]interface{}{"scenario": cfg.Scenario, "choices": f.Replay.Choices})
	}
}

// Finish (parent): spawn the workers, merge, write evidence, exit.
func Finish(c *vlib.Ctx, rule string) {
	if c.ReplayOnly != "" {
		c.Finish(rule)
	}
	if workerShard >= 0 {
		os.Exit(0)
	}
	n := runtime.NumCPU()
	if s := os.Getenv("VRT_WORKERS"); s != "" {
		fmt.Sscan(s, &n)
	}
	type agg struct {
		stats      vrt.Stats
		outcomes   map[string]int
		nontrivial int
		sample     []int
		boundDone  int
		exhaustive bool
	}
	aggs := map[string]*agg{}
	var mu sync.Mutex
	var wg sync.WaitGroup
	engineErrs := []string{}
	for k := 0; k < n; k++ {
		wg.Add(1)
		go func(k int) {
			defer wg.Done()
			cmd := exec.Command(os.Args[0], os.Args[1:]...)
			cmd.Env = append(os.Environ(), fmt.Sprintf("VRT_WORKER=%d/%d", k, n), "GOMAXPROCS=2")
			cmd.Stderr = os.Stderr
			out, err := cmd.StdoutPipe()
			if err != nil {
				panic(err)
			}
			if err := cmd.Start(); err != nil {
				panic(err)
			}
			sc := bufio.NewScanner(out)
			sc.Buffer(make([]byte, 1<<20), 64<<20)
			for sc.Scan() {
				line := sc.Text()
				if !strings.HasPrefix(line, "GSXRESULT ") {
					fmt.Println(line)
					continue
				}
				var r scenResult
				if err := json.Unmarshal([]byte(line[10:]), &r); err != nil {
					mu.Lock()
					engineErrs = append(engineErrs, "bad worker output: "+err.Error())
					mu.Unlock()
					continue
				}
				mu.Lock()
				a := aggs[r.Scenario]
				if a == nil {
					a = &agg{outcomes: map[string]int{}, boundDone: 1 << 30, exhaustive: true}
					aggs[r.Scenario] = a
				}
				a.stats.Executions += r.Stats.Executions
				a.stats.ChoicePoints += r.Stats.ChoicePoints
				if r.Stats.MaxPoints > a.stats.MaxPoints {
					a.stats.MaxPoints = r.Stats.MaxPoints
				}
				if r.Stats.MaxDevs > a.stats.MaxDevs {
					a.stats.MaxDevs = r.Stats.MaxDevs
				}
				if r.Stats.BoundDone < a.boundDone {
					a.boundDone = r.Stats.BoundDone
				}
				if !r.Stats.Exhaustive {
					a.exhaustive = false
				}
				for o, cnt := range r.Outcomes {
					a.outcomes[o] += cnt
				}
				a.nontrivial += r.Nontrivial
				if len(r.Sample) > len(a.sample) {
					a.sample = r.Sample
				}
				if r.EngineErr != "" {
					engineErrs = append(engineErrs, r.Scenario+": "+r.EngineErr)
				}
				for _, v := range r.Violations {
					c.Report(v.Key, v.What, map[string]interface{}{"scenario": r.Scenario, "choices": v.Choices, "trace": v.Trace})
				}
				mu.Unlock()
			}
			if err := cmd.Wait(); err != nil {
				mu.Lock()
				engineErrs = append(engineErrs, fmt.Sprintf("worker %d: %v", k, err))
				mu.Unlock()
			}
		}(k)
	}
	wg.Wait()
	if len(engineErrs) > 0 {
		for _, e := range engineErrs {
			fmt.Println("ENGINE-ERROR", e)
		}
		os.Exit(2)
	}
	totalExec, totalPts, totalNT := 0, int64(0), 0
	allExh := true
	var per []map[string]interface{}
	for _, name := range scenarios {
		a := aggs[name]
		if a == nil {
			fmt.Println("ENGINE-ERROR no worker reported scenario", name)
			os.Exit(2)
		}
		totalExec += a.stats.Executions
		totalPts += a.stats.ChoicePoints
		totalNT += a.nontrivial
		if !a.exhaustive {
			allExh = false
		}
		outs := []string{}
		for o, cnt := range a.outcomes {
			outs = append(outs, fmt.Sprintf("%s ×%d", o, cnt))
		}
		sort.Strings(outs)
		if len(outs) > 12 {
			outs = append(outs[:12], fmt.Sprintf("… %d more", len(outs)-12))
		}
		per = append(per, map[string]interface{}{"scenario": name, "schedules": a.stats.Executions, "scheduling_decisions": a.stats.ChoicePoints,
			"max_choice_points_in_one_execution": a.stats.MaxPoints, "deviation_bound_completed": a.boundDone, "exhaustive_within_bound": a.exhaustive,
			"distinct_outcomes": len(a.outcomes), "outcomes": outs})
		c.Sample(map[string]interface{}{"scenario": name, "longest_schedule_as_choice_sequence": a.sample})
		if len(scenarios) <= 30 {
			fmt.Printf("  %s: schedules=%d decisions=%d bound_done=%d exhaustive=%v outcomes=%d\n", name, a.stats.Executions, a.stats.ChoicePoints, a.boundDone, a.exhaustive, len(a.outcomes))
		}
	}
	c.AddEvals(int64(totalExec))
	for i := 0; i < totalNT; i++ {
		c.Eval(fmt.Sprintf("nt%d", i))
	}
	c.AddEvals(-int64(totalNT))
	c.Set("schedules", totalExec)
	c.Set("transitions", totalPts)
	c.Set("scenario_count", len(per))
	if len(per) > 40 {
		per = append(per[:40], map[string]interface{}{"note": fmt.Sprintf("%d further scenarios omitted from the evidence listing", len(scenarios)-40)})
	}
	c.Set("scenarios", per)
	c.Set("workers", n)
	if !allExh {
		c.CapHit("time budget reached before the deviation bound was completed in some scenario (see scenarios[].deviation_bound_completed)")
	}
	c.Finish(rule)
}
