// Package vlib is the common reporting layer of the /verif harnesses: tiers,
// violation de-duplication, matching against known_findings.json, replay
// files, the evidence file and the exit protocol of the brief.
package vlib

import (
	"crypto/sha256"
	"encoding/hex"
	"encoding/json"
	"fmt"
	"os"
	"os/exec"
	"path/filepath"
	"sort"
	"strconv"
	"strings"
	"sync"
	"time"
)

type Finding struct {
	Property string   `json:"property"`
	ID       string   `json:"id"`
	Status   string   `json:"status"` // "known" | "fixed"
	Commit   string   `json:"commit,omitempty"`
	Keys     []string `json:"keys"` // exact violation keys this entry covers
	What     string   `json:"what"`
}

type Ctx struct {
	ID, Tier   string
	Seed       int64
	Dir        string
	Level      string
	start      time.Time
	mu         sync.Mutex
	viols      map[string]*viol
	order      []string
	findings   []Finding
	ReplayOnly string

	distinct map[[16]byte]struct{}
	evals    int64
	Samples  []interface{}
	Extra    map[string]interface{}
	Assume   []string
	capHit   string
}

type viol struct {
	key, what string
	replay    interface{}
	count     int
}

func Init(level string) *Ctx {
	c := &Ctx{
		ID:       os.Getenv("VERIF_ID"),
		Tier:     os.Getenv("VERIF_TIER"),
		Dir:      os.Getenv("VERIF_DIR"),
		Level:    level,
		start:    time.Now(),
		viols:    map[string]*viol{},
		distinct: map[[16]byte]struct{}{},
		Extra:    map[string]interface{}{},
	}
	if c.Tier != "thorough" {
		c.Tier = "quick"
	}
	if c.Dir == "" {
		c.Dir = "/verif"
	}
	c.Seed, _ = strconv.ParseInt(os.Getenv("VERIF_SEED"), 10, 64)
	for i, a := range os.Args {
		if a == "--replay" && i+1 < len(os.Args) {
			c.ReplayOnly = os.Args[i+1]
		}
	}
	b, err := os.ReadFile(filepath.Join(c.Dir, "known_findings.json"))
	if err == nil {
		var f struct {
			Findings []Finding `json:"findings"`
		}
		if err := json.Unmarshal(b, &f); err != nil {
			fmt.Println("ENGINE-ERROR known_findings.json does not parse:", err)
			os.Exit(2)
		}
		c.findings = f.Findings
	}
	return c
}

// maxPrinted caps the violations printed and written as replay files (VERIF_MAX_PRINTED overrides).
var maxPrinted = func() int {
	n := 25
	if s := os.Getenv("VERIF_MAX_PRINTED"); s != "" {
		fmt.Sscan(s, &n)
	}
	return n
}()

func (c *Ctx) Quick() bool    { return c.Tier == "quick" }
func (c *Ctx) Thorough() bool { return c.Tier == "thorough" }

// Pick returns q in the quick tier and t in the thorough tier.
func (c *Ctx) Pick(q, t int) int {
	if c.Quick() {
		return q
	}
	return t
}

// Eval counts one executed case; key identifies the case for distinct counting
// ("" = trivial case, counted as an evaluation only).
func (c *Ctx) Eval(nontrivialKey string) {
	c.mu.Lock()
	c.evals++
	if nontrivialKey != "" {
		h := sha256.Sum256([]byte(nontrivialKey))
		var k [16]byte
		copy(k[:], h[:16])
		c.distinct[k] = struct{}{}
	}
	c.mu.Unlock()
}

func (c *Ctx) AddEvals(n int64) {
	c.mu.Lock()
	c.evals += n
	c.mu.Unlock()
}

func (c *Ctx) Evals() int64 {
	c.mu.Lock()
	defer c.mu.Unlock()
	return c.evals
}

func (c *Ctx) Sample(s interface{}) {
	c.mu.Lock()
	if len(c.Samples) < 12 {
		c.Samples = append(c.Samples, s)
	}
	c.mu.Unlock()
}

// CapHit records that a time/size cap cut the enumeration short.
func (c *Ctx) CapHit(what string) {
	c.mu.Lock()
	c.capHit = what
	c.mu.Unlock()
}

// Deadline returns the internal time budget of the tier.
func (c *Ctx) Deadline(quick, thorough time.Duration) time.Time {
	if c.Quick() {
		return c.start.Add(quick)
	}
	return c.start.Add(thorough)
}

// Report records a violation.  key is the narrow identity used both for
// de-duplication within a run and for matching known_findings.json.
func (c *Ctx) Report(key, what string, replay interface{}) {
	c.mu.Lock()
	defer c.mu.Unlock()
	if v, ok := c.viols[key]; ok {
		v.count++
		return
	}
	c.viols[key] = &viol{key: key, what: what, replay: replay, count: 1}
	c.order = append(c.order, key)
}

func (c *Ctx) NumViolations() int {
	c.mu.Lock()
	defer c.mu.Unlock()
	return len(c.viols)
}

func (c *Ctx) known(key string) *Finding {
	for i := range c.findings {
		f := &c.findings[i]
		if f.Property != c.ID || f.Status != "known" {
			continue
		}
		for _, k := range f.Keys {
			if k == key {
				return f
			}
		}
	}
	return nil
}

func (c *Ctx) Set(k string, v interface{}) {
	c.mu.Lock()
	c.Extra[k] = v
	c.mu.Unlock()
}

// Finish writes the evidence file, prints KNOWN-FINDING / VIOLATION lines and
// exits with the protocol status.
func (c *Ctx) Finish(rule string) {
	c.mu.Lock()
	defer c.mu.Unlock()
	unknown := 0
	sort.Slice(c.order, func(i, j int) bool {
		if len(c.order[i]) != len(c.order[j]) {
			return len(c.order[i]) < len(c.order[j])
		}
		return c.order[i] < c.order[j]
	})
	printedKnown := map[string]bool{}
	if out := os.Getenv("VERIF_KEYS_OUT"); out != "" {
		_ = os.WriteFile(out, []byte(strings.Join(c.order, "\n")+"\n"), 0o644)
	}
	for _, k := range c.order {
		v := c.viols[k]
		if f := c.known(k); f != nil {
			if !printedKnown[f.ID] {
				fmt.Printf("KNOWN-FINDING: property=%s %s (%s)\n", c.ID, f.ID, f.What)
				printedKnown[f.ID] = true
			}
			continue
		}
		unknown++
		if unknown > maxPrinted {
			continue
		}
		h := sha256.Sum256([]byte(k))
		rp := filepath.Join(c.Dir, "replay", fmt.Sprintf("%s-%s.json", c.ID, hex.EncodeToString(h[:6])))
		b, _ := json.MarshalIndent(map[string]interface{}{
			"property": c.ID, "key": k, "what": v.what, "replay": v.replay, "occurrences": v.count, "tier": c.Tier, "part": os.Getenv("VERIF_PART"),
		}, "", " ")
		_ = os.MkdirAll(filepath.Dir(rp), 0o755)
		_ = os.WriteFile(rp, b, 0o644)
		{
			fmt.Printf("VIOLATION property=%s replay=%s\n", c.ID, rp)
			w := v.what
			if len(w) > 600 {
				w = w[:600] + "…"
			}
			fmt.Printf("  key=%s\n  %s\n", k, strings.ReplaceAll(w, "\n", "\n  "))
		}
	}
	if unknown > maxPrinted {
		fmt.Printf("(%d further violations suppressed from stdout)\n", unknown-maxPrinted)
	}
	cov := map[string]interface{}{}
	for k, v := range c.Extra {
		cov[k] = v
	}
	cov["evaluations"] = c.evals
	cov["distinct_nontrivial"] = len(c.distinct)
	cov["rule"] = rule
	if len(c.Samples) == 0 {
		c.Samples = append(c.Samples, "no sample recorded")
	}
	cov["samples"] = c.Samples
	if _, ok := cov["exhaustive"]; !ok {
		cov["exhaustive"] = c.capHit == ""
	}
	if c.capHit != "" {
		cov["cap_hit"] = c.capHit
		cov["exhaustive"] = false
	}
	cov["known_findings_matched"] = len(printedKnown)
	// a check made of several harness binaries: the parts that ran before this one hand their evidence over
	otherViolations := 0
	for _, f := range strings.Split(os.Getenv("VERIF_MERGE_EVIDENCE"), ":") {
		if f == "" {
			continue
		}
		b, err := os.ReadFile(f)
		var pe struct {
			Coverage   map[string]interface{} `json:"coverage"`
			Assume     []string               `json:"assumptions"`
			Wall       float64                `json:"wall_s"`
			Violations int                    `json:"violations"`
			Level      string                 `json:"level"`
		}
		name := strings.TrimSuffix(filepath.Base(f), ".json")
		if err != nil || json.Unmarshal(b, &pe) != nil {
			fmt.Println("ENGINE-ERROR part", name, "left no evidence")
			os.Exit(2)
		}
		pe.Coverage["wall_s"] = pe.Wall
		pe.Coverage["violations"] = pe.Violations
		pe.Coverage["level"] = pe.Level
		pe.Coverage["assumptions"] = pe.Assume
		cov["part_"+name] = pe.Coverage
		if ex, ok := pe.Coverage["exhaustive"].(bool); ok && !ex {
			cov["exhaustive"] = false
		}
		otherViolations += pe.Violations
	}
	ev := map[string]interface{}{
		"property_id": c.ID,
		"tier":        c.Tier,
		"seed":        c.Seed,
		"level":       c.Level,
		"coverage":    cov,
		"assumptions": c.Assume,
		"wall_s":      time.Since(c.start).Seconds(),
		"violations":  unknown + otherViolations,
	}
	if c.Assume == nil {
		ev["assumptions"] = []string{}
	}
	b, err := json.MarshalIndent(ev, "", " ")
	if err != nil {
		fmt.Println("ENGINE-ERROR evidence marshal:", err)
		os.Exit(2)
	}
	if c.ReplayOnly == "" {
		p := filepath.Join(c.Dir, "evidence", c.ID+".json")
		if o := os.Getenv("VERIF_EVIDENCE_OUT"); o != "" {
			p = o
		}
		_ = os.MkdirAll(filepath.Dir(p), 0o755)
		if err := os.WriteFile(p, b, 0o644); err != nil {
			fmt.Println("ENGINE-ERROR evidence write:", err)
			os.Exit(2)
		}
	}
	fmt.Printf("%s %s: evaluations=%d distinct_nontrivial=%d violations=%d known=%d exhaustive=%v wall=%.1fs\n",
		c.ID, c.Tier, c.evals, len(c.distinct), unknown, len(printedKnown), cov["exhaustive"], time.Since(c.start).Seconds())
	if unknown > 0 {
		os.Exit(1)
	}
	os.Exit(0)
}

// Parallel runs f(i) for i in [0,n) on workers goroutines.
func Parallel(n, workers int, f func(i int)) {
	if workers < 1 {
		workers = 1
	}
	var wg sync.WaitGroup
	ch := make(chan int, 64)
	for w := 0; w < workers; w++ {
		wg.Add(1)
		go func() {
			defer wg.Done()
			for i := range ch {
				f(i)
			}
		}()
	}
	for i := 0; i < n; i++ {
		ch <- i
	}
	close(ch)
	wg.Wait()
}

// ParallelW is Parallel with the worker index passed to f (for per-worker names).
func ParallelW(n, workers int, f func(w, i int)) {
	if workers < 1 {
		workers = 1
	}
	var wg sync.WaitGroup
	ch := make(chan int, 64)
	for w := 0; w < workers; w++ {
		wg.Add(1)
		go func(w int) {
			defer wg.Done()
			for i := range ch {
				f(w, i)
			}
		}(w)
	}
	for i := 0; i < n; i++ {
		ch <- i
	}
	close(ch)
	wg.Wait()
}

// Q renders arbitrary bytes readably for keys and samples.
func Q(s string) string { return strconv.Quote(s) }

// Supervise re-executes the harness as a child process and returns in the
// child.  In the parent it passes the child's verdict through; if the child is
// killed by a fatal error that recover() cannot catch (concurrent map access,
// stack overflow, out of memory) in the code under test, that is reported as a
// violation of its own instead of an engine error.
func Supervise(c *Ctx, rule string) {
	if os.Getenv("VERIF_SUPERVISED") != "" || c.ReplayOnly != "" {
		return
	}
	dir := os.Getenv("VERIF_SCRATCH")
	if dir == "" {
		dir = os.TempDir()
	}
	errPath := filepath.Join(dir, "supervised.stderr")
	ef, _ := os.Create(errPath)
	cmd := exec.Command(os.Args[0], os.Args[1:]...)
	cmd.Env = append(os.Environ(), "VERIF_SUPERVISED=1")
	cmd.Stdout = os.Stdout
	cmd.Stderr = ef
	err := cmd.Run()
	ef.Close()
	code := 0
	if err != nil {
		code = -1
		if ee, ok := err.(*exec.ExitError); ok {
			code = ee.ExitCode()
		}
	}
	b, _ := os.ReadFile(errPath)
	t := string(b)
	k := strings.Index(t, "fatal error:")
	if code == 0 || code == 1 {
		os.Exit(code)
	}
	if k < 0 {
		os.Stderr.Write(b)
		fmt.Printf("ENGINE-ERROR the harness process ended with status %d\n", code)
		os.Exit(2)
	}
	t = t[k:]
	if len(t) > 1500 {
		t = t[:1500]
	}
	first := strings.SplitN(t, "\n", 2)[0]
	c.Report("crash "+first, "the code under test killed the process with a fatal error that cannot be recovered:\n"+t, map[string]string{"fatal": first})
	c.CapHit("the run was aborted by a fatal error in the code under test")
	c.Finish(rule)
}
