package vlib

import (
	"fmt"
	"reflect"
	"sort"
	"strings"
	"time"
	"unsafe"
)

// DeepDump renders the complete object graph reachable from v canonically,
// including unexported fields (so that state hidden in fields a harness does
// not know about — a cache, a cursor — still distinguishes two states when an
// explicit-state search de-duplicates).  Pointers are numbered in first-visit
// order; map entries are sorted by their rendered key; slices are rendered up
// to len; time.Time is rendered as its instant; funcs and channels as nil/non-nil.
func DeepDump(v interface{}) string { return DeepDumpMask(v, 1, 0) }

// DeepDumpMask is DeepDump with every signed integer in [lo, hi] rendered as
// NOW (used to mask wall-clock stamps, which are nanosecond counts near now).
func DeepDumpMask(v interface{}, lo, hi int64) string {
	d := &dumper{ids: map[unsafe.Pointer]int{}, lo: lo, hi: hi}
	d.walk(reflect.ValueOf(v), 0)
	return d.b.String()
}

type dumper struct {
	b      strings.Builder
	ids    map[unsafe.Pointer]int
	lo, hi int64
}

var timeType = reflect.TypeOf(time.Time{})

func access(v reflect.Value) reflect.Value {
	if v.CanInterface() || !v.CanAddr() {
		return v
	}
	return reflect.NewAt(v.Type(), unsafe.Pointer(v.UnsafeAddr())).Elem()
}

// Opaque lists types (by their reflect String(), e.g. "regexp.Regexp") that are
// rendered through fmt %v (pointers to them too) instead of being walked.
var Opaque = map[string]bool{"regexp.Regexp": true, "time.Location": true, "context.Context": true}

func (d *dumper) walk(v reflect.Value, depth int) {
	if v.IsValid() && Opaque[v.Type().String()] {
		if v.Kind() != reflect.Interface && v.CanAddr() {
			a := access(v)
			if a.CanAddr() && a.Addr().CanInterface() {
				fmt.Fprintf(&d.b, "opaque(%v)", a.Addr().Interface())
				return
			}
		}
		d.b.WriteString("opaque")
		return
	}
	if depth > 200 {
		d.b.WriteString("<deep>")
		return
	}
	if !v.IsValid() {
		d.b.WriteString("<invalid>")
		return
	}
	if v.Type() == timeType {
		if v.CanAddr() || v.CanInterface() {
			t := access(v)
			if t.CanInterface() {
				tm := t.Interface().(time.Time)
				if x := tm.UnixNano(); x >= d.lo && x <= d.hi {
					d.b.WriteString("time(NOW)")
				} else {
					fmt.Fprintf(&d.b, "time(%d)", x)
				}
				return
			}
		}
		// unaddressable unexported time: fall back to wall/ext words
		fmt.Fprintf(&d.b, "time(w=%d,e=%d)", v.Field(0).Uint(), v.Field(1).Int())
		return
	}
	switch v.Kind() {
	case reflect.Bool:
		fmt.Fprintf(&d.b, "%v", v.Bool())
	case reflect.Int, reflect.Int8, reflect.Int16, reflect.Int32, reflect.Int64:
		if x := v.Int(); x >= d.lo && x <= d.hi {
			d.b.WriteString("NOW")
		} else {
			fmt.Fprintf(&d.b, "%d", x)
		}
	case reflect.Uint, reflect.Uint8, reflect.Uint16, reflect.Uint32, reflect.Uint64, reflect.Uintptr:
		fmt.Fprintf(&d.b, "%d", v.Uint())
	case reflect.Float32, reflect.Float64:
		fmt.Fprintf(&d.b, "%x", v.Float())
	case reflect.Complex64, reflect.Complex128:
		fmt.Fprintf(&d.b, "%v", v.Complex())
	case reflect.String:
		fmt.Fprintf(&d.b, "%q", v.String())
	case reflect.Ptr:
		if v.IsNil() {
			d.b.WriteString("nil")
			return
		}
		p := unsafe.Pointer(v.Pointer())
		if id, ok := d.ids[p]; ok {
			fmt.Fprintf(&d.b, "&%d", id)
			return
		}
		id := len(d.ids)
		d.ids[p] = id
		fmt.Fprintf(&d.b, "&%d=", id)
		d.walk(v.Elem(), depth+1)
	case reflect.Interface:
		if v.IsNil() {
			d.b.WriteString("nil")
			return
		}
		fmt.Fprintf(&d.b, "(%s)", v.Elem().Type())
		d.walk(v.Elem(), depth+1)
	case reflect.Struct:
		d.b.WriteString(v.Type().Name() + "{")
		for i := 0; i < v.NumField(); i++ {
			f := v.Type().Field(i)
			if f.Name == "noCopy" {
				continue
			}
			d.b.WriteString(f.Name + ":")
			d.walk(access(v.Field(i)), depth+1)
			d.b.WriteString(",")
		}
		d.b.WriteString("}")
	case reflect.Slice:
		if v.IsNil() {
			d.b.WriteString("nil[]")
			return
		}
		fallthrough
	case reflect.Array:
		d.b.WriteString("[")
		for i := 0; i < v.Len(); i++ {
			d.walk(access(v.Index(i)), depth+1)
			d.b.WriteString(",")
		}
		d.b.WriteString("]")
	case reflect.Map:
		if v.IsNil() {
			d.b.WriteString("nilmap")
			return
		}
		// keys are rendered first (with a scratch id table, so that visiting them in Go's random
		// map order cannot influence pointer numbering), sorted, and only then are the values
		// walked, in sorted key order
		type kv struct {
			k string
			v reflect.Value
		}
		var es []kv
		it := v.MapRange()
		for it.Next() {
			scratch := map[unsafe.Pointer]int{}
			for p, id := range d.ids {
				scratch[p] = id
			}
			kd := &dumper{ids: scratch, lo: d.lo, hi: d.hi}
			kd.walk(it.Key(), depth+1)
			es = append(es, kv{kd.b.String(), it.Value()})
		}
		sort.Slice(es, func(i, j int) bool { return es[i].k < es[j].k })
		d.b.WriteString("map{")
		for _, e := range es {
			d.b.WriteString(e.k + "=>")
			d.walk(e.v, depth+1)
			d.b.WriteString(",")
		}
		d.b.WriteString("}")
	case reflect.Chan, reflect.Func, reflect.UnsafePointer:
		if v.IsNil() {
			d.b.WriteString("nil")
		} else {
			d.b.WriteString(v.Kind().String())
		}
	default:
		d.b.WriteString("?" + v.Kind().String())
	}
}
