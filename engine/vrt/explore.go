package vrt

import (
	"fmt"
	"os"
	"time"
)

func init() {
	osExit = func(code int) { os.Exit(code) }
}

type point struct {
	n      int
	chosen int
	kind   string
}

// dfsChooser replays a prefix of choices and then takes alternative 0.
type dfsChooser struct {
	prefix   []int
	expectN  []int
	points   []point
	diverged string
}

func (c *dfsChooser) Choose(n int, kind string, desc func() string) int {
	i := len(c.points)
	ch := 0
	if i < len(c.prefix) {
		ch = c.prefix[i]
		if i < len(c.expectN) && c.expectN[i] != n && c.diverged == "" {
			c.diverged = fmt.Sprintf("choice point %d (%s) had %d alternatives in the parent execution and %d on replay: %s", i, kind, c.expectN[i], n, desc())
		}
		if ch >= n {
			if c.diverged == "" {
				c.diverged = fmt.Sprintf("choice point %d (%s): replayed choice %d out of range %d", i, kind, ch, n)
			}
			ch = 0
		}
	}
	c.points = append(c.points, point{n, ch, kind})
	return ch
}

// Exec describes one explored execution.
type Exec struct {
	Choices    []int // the complete choice sequence (alternative index at every choice point)
	Deviations int   // number of non-default choices
	Res        Result
}

type Stats struct {
	Executions   int
	ChoicePoints int64
	MaxPoints    int
	MaxDevs      int
	BoundDone    int // largest deviation bound whose executions were all run
	Exhaustive   bool
	Diverged     string
}

type work struct {
	prefix  []int
	expectN []int
	devs    int
}

// Explore runs body under every schedule with at most `bound` deviations from
// the default schedule (iteratively: bound 0, then 1, ...).  A deviation is any
// non-default choice at a scheduling or select choice point.  check is called
// after every execution.  Sharding: only subtrees whose first deviation index
// is congruent to shard modulo nshards are explored (the root execution is run
// by every shard, checked by shard 0).
func Explore(bound int, shard, nshards int, deadline time.Time, maxSteps int, body func(), check func(e Exec)) Stats {
	st := Stats{Exhaustive: true, BoundDone: -1}
	rootIdx := 0
	// iterative deepening over the deviation budget keeps the first counterexample minimal
	for b := 0; b <= bound; b++ {
		stack := []work{{}}
		complete := true
		for len(stack) > 0 {
			if !deadline.IsZero() && time.Now().After(deadline) {
				complete = false
				break
			}
			wk := stack[len(stack)-1]
			stack = stack[:len(stack)-1]
			ch := &dfsChooser{prefix: wk.prefix, expectN: wk.expectN}
			res := Run(ch, false, maxSteps, body)
			if ch.diverged != "" {
				st.Diverged = ch.diverged
				st.Exhaustive = false
				return st
			}
			choices := make([]int, len(ch.points))
			ns := make([]int, len(ch.points))
			for i, p := range ch.points {
				choices[i] = p.chosen
				ns[i] = p.n
			}
			// only executions with exactly b deviations are new at this level
			if wk.devs == b && (len(wk.prefix) > 0 || shard == 0) {
				st.Executions++
				st.ChoicePoints += int64(len(choices))
				if len(choices) > st.MaxPoints {
					st.MaxPoints = len(choices)
				}
				if wk.devs > st.MaxDevs {
					st.MaxDevs = wk.devs
				}
				check(Exec{Choices: choices, Deviations: wk.devs, Res: res})
			}
			if wk.devs >= b {
				continue
			}
			for i := len(ch.points) - 1; i >= len(wk.prefix); i-- {
				for alt := ns[i] - 1; alt >= 1; alt-- {
					if len(wk.prefix) == 0 {
						rootIdx++
						if nshards > 1 && rootIdx%nshards != shard {
							continue
						}
					}
					p := append(append(make([]int, 0, i+1), choices[:i]...), alt)
					stack = append(stack, work{prefix: p, expectN: ns[:i+1], devs: wk.devs + 1})
				}
			}
		}
		rootIdx = 0
		if !complete {
			st.Exhaustive = false
			break
		}
		st.BoundDone = b
	}
	return st
}

// fixedChooser replays one recorded schedule.
type fixedChooser struct {
	choices []int
	i       int
	Bad     string
}

func (c *fixedChooser) Choose(n int, kind string, desc func() string) int {
	ch := 0
	if c.i < len(c.choices) {
		ch = c.choices[c.i]
	}
	c.i++
	if ch >= n {
		c.Bad = fmt.Sprintf("choice %d out of range %d at point %d", ch, n, c.i-1)
		ch = 0
	}
	return ch
}

// Replay runs body once under a recorded choice sequence, with tracing.
func Replay(choices []int, maxSteps int, body func()) (Result, string) {
	c := &fixedChooser{choices: choices}
	r := Run(c, true, maxSteps, body)
	return r, c.Bad
}
