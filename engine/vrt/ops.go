package vrt

import (
	"fmt"
	"reflect"
	"sort"
	"time"
)

// ---------------------------------------------------------------------------
// mutexes, wait groups, once (state lives in the vsync shim objects)

type MutexState struct {
	locked bool
	owner  int
	vc     VC
}

type RWState struct {
	writer         bool
	readers        int
	waitingWriters int
	owner          int
	wvc, rvc       VC // clocks published by the last writer unlock / the reader unlocks
}

type WGState struct {
	n  int
	vc VC
}

type OnceState struct {
	done    bool
	running bool
	vc      VC
}

// ForeignLocksDirect lets goroutines the engine does not control (library
// helpers such as prometheus.DescribeByCollect, which calls Collect from its
// own goroutine while the registering thread waits for it) perform mutex,
// rwmutex and atomic operations directly, provided the lock is free; anything
// else from such a goroutine remains an engine error.  ForeignOps counts them.
var ForeignLocksDirect = false
var ForeignOps int

func foreign() bool {
	if !ForeignLocksDirect || w == nil || w.aborting {
		return false
	}
	if goid() == w.curG {
		return false
	}
	ForeignOps++
	return true
}

func foreignMustBeFree(free bool, what string) {
	if !free {
		fmt.Printf("ENGINE-ERROR vrt: an uncontrolled goroutine needs %s, which is held; it cannot be scheduled\n%s\n", what, stack())
		osExit(2)
	}
}

func direct() bool { return w == nil || w.aborting }

func MutexLock(m *MutexState) {
	if foreign() {
		foreignMustBeFree(!m.locked, "a Mutex")
		m.locked = true
		return
	}
	if direct() {
		m.locked = true
		return
	}
	yield(pendingOp{kind: opLock, mu: m, what: "Mutex"})
	if w != nil && w.aborting {
		return
	}
	m.locked = true
	m.owner = w.cur.ID
	hbAcquire(m.vc)
}

func MutexTryLock(m *MutexState) bool {
	if !direct() {
		yield(pendingOp{kind: opYield, what: "Mutex.TryLock"})
	}
	if m.locked {
		return false
	}
	m.locked = true
	return true
}

func MutexUnlock(m *MutexState) {
	if foreign() {
		m.locked = false
		return
	}
	if !m.locked && !direct() {
		panic("sync: unlock of unlocked mutex")
	}
	hbRelease(&m.vc)
	m.locked = false
}

func RWLock(m *RWState) {
	if foreign() {
		foreignMustBeFree(!m.writer && m.readers == 0, "an RWMutex (write)")
		m.writer = true
		return
	}
	if direct() {
		m.writer = true
		return
	}
	yield(pendingOp{kind: opYield, what: "RWMutex.Lock"})
	if w == nil || w.aborting {
		return
	}
	if !m.writer && m.readers == 0 {
		m.writer = true
		m.owner = w.cur.ID
		hbAcquire(m.wvc)
		hbAcquire(m.rvc)
		return
	}
	// blocked writer: announced, new readers are held back (Go's writer preference)
	m.waitingWriters++
	yield(pendingOp{kind: opLock, rw: m, what: "RWMutex.Lock(blocked)"})
	if w == nil || w.aborting {
		return
	}
	m.waitingWriters--
	m.writer = true
	m.owner = w.cur.ID
	hbAcquire(m.wvc)
	hbAcquire(m.rvc)
}

func RWTryLock(m *RWState) bool {
	if !direct() {
		yield(pendingOp{kind: opYield, what: "RWMutex.TryLock"})
	}
	if m.writer || m.readers > 0 {
		return false
	}
	m.writer = true
	return true
}

func RWUnlock(m *RWState) {
	if !m.writer && !direct() {
		panic("sync: Unlock of unlocked RWMutex")
	}
	hbRelease(&m.wvc)
	m.writer = false
}

func RWRLock(m *RWState) {
	if foreign() {
		foreignMustBeFree(!m.writer, "an RWMutex (read)")
		m.readers++
		return
	}
	if direct() {
		m.readers++
		return
	}
	yield(pendingOp{kind: opRLock, rw: m, what: "RWMutex.RLock"})
	if w == nil || w.aborting {
		return
	}
	m.readers++
	hbAcquire(m.wvc)
}

func RWTryRLock(m *RWState) bool {
	if !direct() {
		yield(pendingOp{kind: opYield, what: "RWMutex.TryRLock"})
	}
	if m.writer || m.waitingWriters > 0 {
		return false
	}
	m.readers++
	return true
}

func RWRUnlock(m *RWState) {
	if m.readers <= 0 {
		if direct() {
			return
		}
		panic("sync: RUnlock of unlocked RWMutex")
	}
	hbReleaseJoin(&m.rvc)
	m.readers--
}

func WGAdd(g *WGState, d int) {
	if d > 0 && !direct() && !foreign() {
		// a scheduling point before a positive Add: a Wait that runs first sees the old count (the classic
		// Add-after-Wait race); Done needs none, the code before it up to the previous point moves with it
		yield(pendingOp{kind: opYield, what: "WaitGroup.Add"})
	}
	if d < 0 {
		hbReleaseJoin(&g.vc)
	}
	g.n += d
	if g.n < 0 && !direct() {
		panic("sync: negative WaitGroup counter")
	}
}

func WGWait(g *WGState) {
	if direct() {
		return
	}
	yield(pendingOp{kind: opWait, wg: g, what: "WaitGroup"})
	hbAcquire(g.vc)
}

func OnceDo(o *OnceState, f func()) {
	if direct() {
		if !o.done {
			o.done = true
			f()
		}
		return
	}
	yield(pendingOp{kind: opYield, what: "Once.Do"})
	if o.done {
		hbAcquire(o.vc)
		return
	}
	if o.running {
		yield(pendingOp{kind: opOnce, once: o})
		hbAcquire(o.vc)
		return
	}
	o.running = true
	defer func() { hbRelease(&o.vc); o.done = true; o.running = false }()
	f()
}

// ---------------------------------------------------------------------------
// channels

func chanPtr(c interface{}) (uintptr, reflect.Value) {
	v := reflect.ValueOf(c)
	if v.Kind() != reflect.Chan {
		panic(fmt.Sprintf("vrt: %T is not a channel", c))
	}
	if v.IsNil() {
		return 0, v
	}
	return v.Pointer(), v
}

func register(c interface{}, capacity int) {
	if direct() {
		return // channels made outside an execution are foreign
	}
	p, _ := chanPtr(c)
	w.chans[p] = &chanState{keep: c, cap: capacity, name: callerPos(3)}
}

// MkU registers an unbuffered channel; the real channel has capacity 1 so that
// the committed sender never blocks in the Go runtime.
func MkU[C any](c C) C { register(c, 0); return c }

// MkB registers a buffered channel whose logical capacity is its real one.
func MkB[C any](c C) C {
	_, v := chanPtr(c)
	if v.Cap() == 0 {
		panic("vrt.MkB: zero capacity; the instrumenter must use MkU for make(chan T, 0)")
	}
	register(c, v.Cap())
	return c
}

var dummies = map[reflect.Type]reflect.Value{}

// closedDummy returns a closed channel assignable to c's type (used during teardown).
func closedDummy[C any](c C) C {
	t := reflect.TypeOf(c)
	both := reflect.ChanOf(reflect.BothDir, t.Elem())
	ch := reflect.MakeChan(both, 0)
	ch.Close()
	return ch.Convert(t).Interface().(C)
}

func openDummy[C any](c C) C {
	t := reflect.TypeOf(c)
	both := reflect.ChanOf(reflect.BothDir, t.Elem())
	ch := reflect.MakeChan(both, 1)
	return ch.Convert(t).Interface().(C)
}

// R is called on the channel operand of every receive: `<-ch` becomes `<-vrt.R(ch)`.
func R[C any](c C) C {
	if w == nil {
		return c
	}
	if w.aborting {
		return closedDummy(c)
	}
	p, real := chanPtr(c)
	if p == 0 {
		yield(pendingOp{kind: opBlocked, what: "recv on nil channel"})
		return closedDummy(c)
	}
	yield(pendingOp{kind: opRecv, ch: p, real: real, what: chanName(p)})
	if w == nil || w.aborting {
		return closedDummy(c)
	}
	w.afterRecv(p, w.cur.op.committed >= 0)
	w.cur.op.committed = -1
	return c
}

func chanName(p uintptr) string {
	if w == nil {
		return ""
	}
	if cs := w.chans[p]; cs != nil {
		return "chan@" + cs.name
	}
	return "foreign chan"
}

func (wd *World) afterRecv(p uintptr, committed bool) {
	cs := wd.chans[p]
	if cs == nil {
		return
	}
	// happens-before: the receiver learns what the sender (or the closer) knew
	if hbActive() {
		if len(cs.vcq) > 0 {
			hbAcquire(cs.vcq[0])
			cs.vcq = cs.vcq[1:]
		} else if cs.closed {
			hbAcquire(cs.closeVC)
		}
	}
	if committed {
		cs.committed--
		return
	}
	if cs.cap > 0 && cs.n > 0 {
		cs.n--
	}
}

func (wd *World) afterSend(p uintptr, self *Thread) {
	cs := wd.chans[p]
	if cs == nil {
		fmt.Println("ENGINE-ERROR vrt: send on a foreign (unregistered) channel at", callerPos(3))
		osExit(2)
	}
	if cs.closed {
		return // the real send panics, as in Go
	}
	if hbActive() {
		cs.vcq = append(cs.vcq, self.vc.copy())
		self.tick()
	}
	if cs.cap > 0 {
		cs.n++
		return
	}
	t, idx := wd.pendingReceiverFor(p, self)
	if t == nil {
		panic("vrt: internal: unbuffered send scheduled without a receiver")
	}
	t.op.committed = idx
	cs.committed++
}

// S is called on the channel operand of every send: `ch <- v` becomes `vrt.S(ch) <- v`.
func S[C any](c C) C {
	if w == nil {
		return c
	}
	if w.aborting {
		return openDummy(c)
	}
	p, real := chanPtr(c)
	if p == 0 {
		yield(pendingOp{kind: opBlocked, what: "send on nil channel"})
		return openDummy(c)
	}
	if w.chans[p] == nil {
		fmt.Println("ENGINE-ERROR vrt: send on a foreign (unregistered) channel at", callerPos(2))
		osExit(2)
	}
	yield(pendingOp{kind: opSend, ch: p, real: real, what: chanName(p)})
	if w == nil || w.aborting {
		return openDummy(c)
	}
	w.afterSend(p, w.cur)
	return c
}

// Cl is called on the operand of close().
func Cl[C any](c C) C {
	if w == nil {
		return c
	}
	if w.aborting {
		return openDummy(c)
	}
	p, _ := chanPtr(c)
	yield(pendingOp{kind: opYield, what: "close " + chanName(p)})
	if w == nil || w.aborting {
		return openDummy(c)
	}
	if cs := w.chans[p]; cs != nil {
		cs.closed = true
		hbRelease(&cs.closeVC)
	}
	return c
}

// Ab returns c, or during teardown a dummy that never blocks (used in rewritten select bodies).
func AbR[C any](c C) C {
	if w != nil && w.aborting {
		return closedDummy(c)
	}
	return c
}

func AbS[C any](c C) C {
	if w != nil && w.aborting {
		return openDummy(c)
	}
	return c
}

type Case struct {
	send bool
	c    interface{}
}

func CaseRecv(c interface{}) Case { return Case{false, c} }
func CaseSend(c interface{}) Case { return Case{true, c} }

// Select implements the rewritten select statement; it returns the index of
// the case to execute (whose real channel operation is then guaranteed not to
// block) or -1 for default.
func Select(hasDefault bool, cases ...Case) int {
	if w == nil {
		panic("vrt.Select outside an execution")
	}
	if w.aborting {
		if hasDefault {
			return -1
		}
		return 0
	}
	sc := make([]selCase, len(cases))
	for i, c := range cases {
		p, real := chanPtr(c.c)
		sc[i] = selCase{send: c.send, ch: p, real: real}
		if c.send && p != 0 && w.chans[p] == nil {
			fmt.Println("ENGINE-ERROR vrt: select-send on a foreign channel at", callerPos(2))
			osExit(2)
		}
	}
	yield(pendingOp{kind: opSelect, cases: sc, hasDef: hasDefault, what: fmt.Sprintf("%d cases", len(cases))})
	if w == nil || w.aborting {
		if hasDefault {
			return -1
		}
		return 0
	}
	self := w.cur
	if k := self.op.committed; k >= 0 {
		self.op.committed = -1
		w.afterRecv(sc[k].ch, true)
		return k
	}
	var ready []int
	for i, c := range sc {
		if c.ch == 0 {
			continue
		}
		if c.send {
			if w.sendEnabled(c.ch, self) {
				ready = append(ready, i)
			}
		} else if w.recvEnabled(c.ch, c.real) {
			ready = append(ready, i)
		}
	}
	if len(ready) == 0 {
		if hasDefault {
			return -1
		}
		panic("vrt: internal: select scheduled with no ready case")
	}
	k := ready[0]
	if len(ready) > 1 {
		k = ready[w.chooser.Choose(len(ready), "select", func() string { return fmt.Sprint("ready cases ", ready) })]
	}
	if sc[k].send {
		w.afterSend(sc[k].ch, self)
	} else {
		w.afterRecv(sc[k].ch, false)
	}
	return k
}

// Keys returns the keys of m in a canonical (sorted by rendering) order: map
// iteration order is a source of nondeterminism the engine owns.
func Keys[M ~map[K]V, K comparable, V any](m M) []K {
	ks := make([]K, 0, len(m))
	for k := range m {
		ks = append(ks, k)
	}
	sort.Slice(ks, func(i, j int) bool { return fmt.Sprint(ks[i]) < fmt.Sprint(ks[j]) })
	if w != nil && !w.aborting && len(ks) > 1 && MapOrderChoice != nil {
		return MapOrderChoice(ks).([]K)
	}
	return ks
}

// MapOrderChoice, when set by a harness, may permute key slices (explorer-owned choice).
var MapOrderChoice func(keys interface{}) interface{}

// Atomic is the scheduling point before an atomic operation.
func Atomic() {
	if foreign() {
		return
	}
	if direct() {
		return
	}
	yield(pendingOp{kind: opYield, what: "atomic"})
}

// After stands in for time.After in instrumented code: the timer is a
// controlled thread that fires as soon as the scheduler lets it, so whether a
// timeout lands before the event it guards is a scheduling choice.
func After(d time.Duration) <-chan time.Time {
	if direct() {
		return time.After(d)
	}
	ch := MkB(make(chan time.Time, 1))
	Go(func() {
		Step("timer fires")
		S(ch) <- time.Now()
	})
	return ch
}
