package vrt

import (
	"fmt"
	"sort"
	"unsafe"
)

// Happens-before race detection at source level.  Every thread, mutex,
// rwmutex, waitgroup, once, channel message, channel close and atomic cell
// carries a vector clock; the instrumenter wraps accesses to the configured
// shared fields in RdP/WrP.  Scheduler hand-offs create NO happens-before
// edge (which is why Go's own race detector is blind under a cooperative
// scheduler and this one is not): two conflicting accesses are reported iff
// mtail's own synchronisation does not order them in the explored schedule.

type VC []int

func (a VC) copy() VC { return append(VC(nil), a...) }

func (a VC) get(i int) int {
	if i < len(a) {
		return a[i]
	}
	return 0
}

func join(a, b VC) VC {
	if len(b) > len(a) {
		a = append(a, make(VC, len(b)-len(a))...)
	}
	for i, v := range b {
		if v > a[i] {
			a[i] = v
		}
	}
	return a
}

func (t *Thread) tick() {
	for len(t.vc) <= t.ID {
		t.vc = append(t.vc, 0)
	}
	t.vc[t.ID]++
}

// RaceDetect switches the detector on (harnesses set it before vrt.Run).
var RaceDetect = false

// RacePointsAreSchedulingPoints makes every hooked access a scheduling point,
// so that unsynchronised check-then-act windows are preemptible.
var RacePointsAreSchedulingPoints = true

type access struct {
	tid, clock int
	site       string
	write      bool
	atomic     bool // performed through sync/atomic: conflicts only with plain accesses
}

type shadow struct {
	lastWrite *access
	reads     map[int]*access
}

// Race is one detected pair of unordered conflicting accesses.
type Race struct {
	Field string
	A, B  string // access sites ("w@file:line" / "r@file:line"), sorted
}

func (r Race) Key() string { return fmt.Sprintf("%s: %s || %s", r.Field, r.A, r.B) }

type raceState struct {
	shadows map[unsafe.Pointer]*shadow
	atomics map[unsafe.Pointer]VC
	races   map[string]Race
}

func (wd *World) rs() *raceState {
	if wd.race == nil {
		wd.race = &raceState{shadows: map[unsafe.Pointer]*shadow{}, atomics: map[unsafe.Pointer]VC{}, races: map[string]Race{}}
	}
	return wd.race
}

// Races returns the races found in the current execution (call before Run returns, from the harness thread) .
func Races() []Race {
	if w == nil || w.race == nil {
		return nil
	}
	var out []Race
	for _, r := range w.race.races {
		out = append(out, r)
	}
	sort.Slice(out, func(i, j int) bool { return out[i].Key() < out[j].Key() })
	return out
}

func hbActive() bool { return RaceDetect && w != nil && !w.aborting }

func siteOf(a *access) string {
	k := "r"
	if a.write {
		k = "w"
	}
	if a.atomic {
		k = "atomic-" + k
	}
	return k + "@" + a.site
}

func recordAccess(p unsafe.Pointer, write bool, field, site string) {
	recordAccessKind(p, write, false, field, site)
}

func recordAccessKind(p unsafe.Pointer, write, atomic bool, field, site string) {
	if !hbActive() || foreignQuiet() {
		return
	}
	if RacePointsAreSchedulingPoints && !atomic {
		yield(pendingOp{kind: opYield, what: "access " + field})
		if w == nil || w.aborting {
			return
		}
	}
	t := w.cur
	st := w.rs()
	sh := st.shadows[p]
	if sh == nil {
		sh = &shadow{reads: map[int]*access{}}
		st.shadows[p] = sh
	}
	me := &access{tid: t.ID, clock: t.vc.get(t.ID), site: site, write: write, atomic: atomic}
	report := func(o *access) {
		if o.tid == t.ID || o.clock <= t.vc.get(o.tid) {
			return // same thread, or ordered before this access
		}
		if o.atomic && me.atomic {
			return // two atomic operations never race
		}
		if field == "" {
			field = "atomic cell"
		}
		a, b := siteOf(o), siteOf(me)
		if b < a {
			a, b = b, a
		}
		r := Race{Field: field, A: a, B: b}
		st.races[r.Key()] = r
	}
	if sh.lastWrite != nil {
		report(sh.lastWrite)
	}
	if write {
		for _, r := range sh.reads {
			report(r)
		}
		sh.lastWrite = me
		sh.reads = map[int]*access{}
	} else {
		sh.reads[t.ID] = me
	}
}

func foreignQuiet() bool {
	if !ForeignLocksDirect {
		return false
	}
	return goid() != w.curG
}

// RdP / WrP wrap a read / write of a hooked field: `x.F` becomes
// `(*vrt.RdP(&x.F, "T.F", "file:line"))`.
func RdP[T any](p *T, field, site string) *T {
	recordAccess(unsafe.Pointer(p), false, field, site)
	return p
}

func WrP[T any](p *T, field, site string) *T {
	recordAccess(unsafe.Pointer(p), true, field, site)
	return p
}

// ---- synchronisation edges (called from ops.go)

func hbAcquire(src VC) {
	if hbActive() && src != nil {
		w.cur.vc = join(w.cur.vc, src)
	}
}

func hbRelease(dst *VC) {
	if hbActive() {
		*dst = w.cur.vc.copy()
		w.cur.tick()
	}
}

func hbReleaseJoin(dst *VC) {
	if hbActive() {
		*dst = join((*dst).copy(), w.cur.vc)
		w.cur.tick()
	}
}

// AtomicAt is the scheduling point and the happens-before edge of an atomic operation on *p.
func AtomicAt(p unsafe.Pointer, write bool) {
	Atomic()
	if !hbActive() || foreignQuiet() {
		return
	}
	// an atomic operation conflicts with an unordered PLAIN access to the same word
	recordAccessKind(p, write, true, "", callerPos(3))
	st := w.rs()
	hbAcquire(st.atomics[p])
	if write {
		vc := st.atomics[p]
		hbReleaseJoin(&vc)
		st.atomics[p] = vc
	}
}
