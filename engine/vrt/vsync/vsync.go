// Package vsync mirrors the part of package sync that mtail uses; every
// blocking method is a scheduling point of the gosim runtime.
package vsync

import "github.com/google/mtail/internal/zverif/vrt"

type Mutex struct{ s vrt.MutexState }

func (m *Mutex) Lock()         { vrt.MutexLock(&m.s) }
func (m *Mutex) Unlock()       { vrt.MutexUnlock(&m.s) }
func (m *Mutex) TryLock() bool { return vrt.MutexTryLock(&m.s) }

type RWMutex struct{ s vrt.RWState }

func (m *RWMutex) Lock()          { vrt.RWLock(&m.s) }
func (m *RWMutex) Unlock()        { vrt.RWUnlock(&m.s) }
func (m *RWMutex) RLock()         { vrt.RWRLock(&m.s) }
func (m *RWMutex) RUnlock()       { vrt.RWRUnlock(&m.s) }
func (m *RWMutex) TryLock() bool  { return vrt.RWTryLock(&m.s) }
func (m *RWMutex) TryRLock() bool { return vrt.RWTryRLock(&m.s) }

type Locker interface {
	Lock()
	Unlock()
}

type WaitGroup struct{ s vrt.WGState }

func (g *WaitGroup) Add(d int) { vrt.WGAdd(&g.s, d) }
func (g *WaitGroup) Done()     { vrt.WGAdd(&g.s, -1) }
func (g *WaitGroup) Wait()     { vrt.WGWait(&g.s) }

type Once struct{ s vrt.OnceState }

func (o *Once) Do(f func()) { vrt.OnceDo(&o.s, f) }
