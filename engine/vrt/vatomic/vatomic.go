// Package vatomic mirrors the part of sync/atomic that mtail uses; every
// operation is preceded by a scheduling point.
package vatomic

import (
	"sync/atomic"
	"unsafe"

	"github.com/google/mtail/internal/zverif/vrt"
)

func LoadInt64(p *int64) int64     { vrt.AtomicAt(unsafe.Pointer(p), false); return atomic.LoadInt64(p) }
func StoreInt64(p *int64, v int64) { vrt.AtomicAt(unsafe.Pointer(p), true); atomic.StoreInt64(p, v) }
func AddInt64(p *int64, d int64) int64 {
	vrt.AtomicAt(unsafe.Pointer(p), true)
	return atomic.AddInt64(p, d)
}
func LoadUint64(p *uint64) uint64 {
	vrt.AtomicAt(unsafe.Pointer(p), false)
	return atomic.LoadUint64(p)
}
func StoreUint64(p *uint64, v uint64) {
	vrt.AtomicAt(unsafe.Pointer(p), true)
	atomic.StoreUint64(p, v)
}
func AddUint64(p *uint64, d uint64) uint64 {
	vrt.AtomicAt(unsafe.Pointer(p), true)
	return atomic.AddUint64(p, d)
}
func LoadInt32(p *int32) int32     { vrt.AtomicAt(unsafe.Pointer(p), false); return atomic.LoadInt32(p) }
func StoreInt32(p *int32, v int32) { vrt.AtomicAt(unsafe.Pointer(p), true); atomic.StoreInt32(p, v) }
func AddInt32(p *int32, d int32) int32 {
	vrt.AtomicAt(unsafe.Pointer(p), true)
	return atomic.AddInt32(p, d)
}
func CompareAndSwapInt64(p *int64, o, n int64) bool {
	vrt.AtomicAt(unsafe.Pointer(p), true)
	return atomic.CompareAndSwapInt64(p, o, n)
}
func CompareAndSwapInt32(p *int32, o, n int32) bool {
	vrt.AtomicAt(unsafe.Pointer(p), true)
	return atomic.CompareAndSwapInt32(p, o, n)
}
