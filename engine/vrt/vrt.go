// Package vrt is the controlled runtime of gosim: a cooperative scheduler for
// real goroutines of instrumented mtail code.  Exactly one registered thread
// holds the token at any time; before every instrumented synchronisation
// operation the thread publishes the operation and yields to the scheduler,
// which computes the enabled set from its own model of mutexes, wait groups
// and channels, asks the Chooser (the explorer) which thread runs next and
// hands the token over.  See DESIGN.md §1.1 and Appendix A.
package vrt

import (
	"fmt"
	"os"
	"reflect"
	"runtime"
	"sort"
	"strings"
)

type opKind int

const (
	opNone    opKind = iota
	opStart          // thread has been spawned and not run yet
	opYield          // plain scheduling point (atomics, unlocks, hooks): always enabled
	opLock           // Mutex.Lock / RWMutex.Lock phase 2
	opRLock          // RWMutex.RLock
	opWait           // WaitGroup.Wait
	opSend           // channel send
	opRecv           // channel receive
	opSelect         // select
	opQuiesce        // harness: wait until no other thread is enabled
	opJoin           // harness: wait until all other threads have finished
	opOnce           // Once.Do while another thread runs the function
	opBlocked        // blocked forever (nil channel etc.)
	opAwait          // simulated environment: enabled when the predicate holds
	opSpin           // a polling loop found nothing new: runs only when no thread with real work is enabled (fairness)
)

var opNames = map[opKind]string{opStart: "start", opYield: "step", opLock: "Lock", opRLock: "RLock", opWait: "WaitGroup.Wait", opSend: "chan send", opRecv: "chan recv", opSelect: "select", opQuiesce: "Quiesce", opJoin: "Join", opOnce: "Once.Do", opBlocked: "blocked forever", opAwait: "await", opSpin: "spin"}

type selCase struct {
	send bool
	ch   uintptr
	real reflect.Value
}

type pendingOp struct {
	kind   opKind
	mu     *MutexState
	rw     *RWState
	wg     *WGState
	once   *OnceState
	ch     uintptr
	real   reflect.Value // the real channel (for foreign readiness polls)
	cases  []selCase
	hasDef bool
	what   string // label for traces
	pred   func() bool
	pos    string
	// rendezvous commitment made by a sender: this receiver must take case `committed`
	committed int // -1 none; for opRecv 0; for opSelect the case index
}

type Thread struct {
	ID      int
	Name    string
	wake    chan struct{}
	exited  chan struct{} // closed when the goroutine has completely finished
	op      pendingOp
	done    bool
	started bool
	aborted bool
	holds   []string
	vc      VC // vector clock (race detection)
}

type chanState struct {
	keep      interface{} // keeps the real channel alive so that its address is not reused within the execution
	cap       int         // logical capacity
	n         int         // logical items in buffer (buffered channels)
	closed    bool
	committed int // unbuffered: items sent but not yet picked up by the committed receiver
	name      string
	vcq       []VC // vector clocks of the messages in flight
	closeVC   VC
}

// Chooser decides at every choice point.  n>=2 alternatives; kind is "sched"
// or "select"; it returns the chosen alternative in [0,n).
type Chooser interface {
	Choose(n int, kind string, desc func() string) int
}

type World struct {
	threads  []*Thread
	cur      *Thread
	chans    map[uintptr]*chanState
	chooser  Chooser
	finished chan struct{} // closed when the execution is over
	aborting bool
	Deadlock string // non-empty: deadlock description
	Panic    string // non-empty: panic in some thread
	Steps    int
	Trace    []string // compact event log (thread:op), for determinism checks
	traceOn  bool
	curG     int64
	MaxSteps int
	Livelock bool
	userData map[string]interface{}
	ender    *Thread
	race     *raceState
}

var w *World // the single world of this process (one execution at a time)

// ---------------------------------------------------------------------------
// goroutine identity (debug cross-check that only controlled goroutines reach
// scheduling points)

func goid() int64 {
	var buf [64]byte
	n := runtime.Stack(buf[:], false)
	// "goroutine 123 ["
	var id int64
	for _, c := range buf[10:n] {
		if c < '0' || c > '9' {
			break
		}
		id = id*10 + int64(c-'0')
	}
	return id
}

var StrictG = true

// DebugTrace prints every scheduling decision to stderr (VRT_TRACE=1).
var DebugTrace = os.Getenv("VRT_TRACE") != ""

func checkG() {
	if w == nil {
		panic("vrt: instrumented operation outside an execution")
	}
	if StrictG {
		if g := goid(); g != w.curG {
			fmt.Printf("ENGINE-ERROR vrt: an uncontrolled goroutine (g%d, token holder g%d thread %d) reached a scheduling point\n%s\n", g, w.curG, w.cur.ID, stack())
			osExit(2)
		}
	}
}

func stack() string {
	buf := make([]byte, 8192)
	n := runtime.Stack(buf, false)
	return string(buf[:n])
}

func callerPos(skip int) string {
	// first frame outside vrt / vsync / vatomic
	pcs := make([]uintptr, 16)
	n := runtime.Callers(skip, pcs)
	fr := runtime.CallersFrames(pcs[:n])
	for {
		f, more := fr.Next()
		if !strings.Contains(f.File, "/zverif/vrt") && !strings.Contains(f.File, "/engine/vrt") {
			i := strings.LastIndex(f.File, "/internal/")
			file := f.File
			if i >= 0 {
				file = f.File[i+10:]
			}
			return fmt.Sprintf("%s:%d", file, f.Line)
		}
		if !more {
			break
		}
	}
	return "?"
}

// ---------------------------------------------------------------------------
// enabledness

func (wd *World) chanOf(p uintptr) *chanState {
	return wd.chans[p]
}

func foreignRecvReady(real reflect.Value) bool {
	if !real.IsValid() || real.IsNil() {
		return false
	}
	chosen, _, ok := reflect.Select([]reflect.SelectCase{
		{Dir: reflect.SelectRecv, Chan: real},
		{Dir: reflect.SelectDefault},
	})
	if chosen == 1 {
		return false
	}
	if ok {
		fmt.Println("ENGINE-ERROR vrt: a foreign (unregistered) channel carried data; only close-only foreign channels such as ctx.Done() are supported")
		osExit(2)
	}
	return true // closed
}

// pendingReceiverFor returns an uncommitted thread waiting to receive on ch (other than self).
func (wd *World) pendingReceiverFor(ch uintptr, self *Thread) (*Thread, int) {
	for _, t := range wd.threads {
		if t == self || t.done || t.op.committed >= 0 {
			continue
		}
		switch t.op.kind {
		case opRecv:
			if t.op.ch == ch {
				return t, 0
			}
		case opSelect:
			for i, c := range t.op.cases {
				if !c.send && c.ch == ch {
					return t, i
				}
			}
		}
	}
	return nil, -1
}

func (wd *World) sendEnabled(ch uintptr, self *Thread) bool {
	cs := wd.chanOf(ch)
	if cs == nil {
		return false // sending on a foreign channel is not supported (would be reported at execution)
	}
	if cs.closed {
		return true // will panic, as in Go
	}
	if cs.cap > 0 {
		return cs.n < cs.cap
	}
	if cs.committed > 0 {
		return false
	}
	t, _ := wd.pendingReceiverFor(ch, self)
	return t != nil
}

func (wd *World) recvEnabled(ch uintptr, real reflect.Value) bool {
	cs := wd.chanOf(ch)
	if cs == nil {
		return foreignRecvReady(real)
	}
	if cs.cap > 0 {
		return cs.n > 0 || cs.closed
	}
	// unbuffered: only through commitment (handled by caller) or closed
	return cs.closed && cs.committed == 0
}

func (wd *World) othersEnabled(self *Thread) bool {
	for _, t := range wd.threads {
		if t != self && !t.done && wd.enabled(t) {
			return true
		}
	}
	return false
}

// othersWorking reports whether a thread other than self has real work: an
// enabled operation that is not itself a spin, quiesce or join wait; with
// spinners, a polling thread counts as well (it runs whenever nothing else can).
func (wd *World) othersWorking(self *Thread, spinners bool) bool {
	for _, t := range wd.threads {
		if t == self || t.done {
			continue
		}
		switch t.op.kind {
		case opQuiesce, opJoin:
			continue
		case opSpin:
			if spinners {
				return true
			}
			continue
		}
		if wd.enabled(t) {
			return true
		}
	}
	return false
}

func (wd *World) enabled(t *Thread) bool {
	if t.done {
		return false
	}
	op := &t.op
	switch op.kind {
	case opStart, opYield:
		return true
	case opLock:
		if op.mu != nil {
			return !op.mu.locked
		}
		return !op.rw.writer && op.rw.readers == 0
	case opRLock:
		return !op.rw.writer && op.rw.waitingWriters == 0
	case opWait:
		return op.wg.n == 0
	case opOnce:
		return op.once.done
	case opSend:
		return wd.sendEnabled(op.ch, t)
	case opRecv:
		if op.committed >= 0 {
			return true
		}
		return wd.recvEnabled(op.ch, op.real)
	case opSelect:
		if op.committed >= 0 || op.hasDef {
			return true
		}
		for _, c := range op.cases {
			if c.send {
				if wd.sendEnabled(c.ch, t) {
					return true
				}
			} else if wd.recvEnabled(c.ch, c.real) {
				return true
			}
		}
		return false
	case opSpin:
		return !wd.othersWorking(t, false)
	case opQuiesce:
		return !wd.othersWorking(t, true)
	case opJoin:
		for _, o := range wd.threads {
			if o != t && !o.done {
				return false
			}
		}
		return true
	case opBlocked:
		return false
	case opAwait:
		return op.pred()
	}
	return false
}

// ---------------------------------------------------------------------------
// scheduling

type abortSignal struct{}

var osExit = func(code int) { panic(fmt.Sprintf("exit %d", code)) }

func (wd *World) describe(t *Thread) string {
	s := fmt.Sprintf("T%d(%s) %s", t.ID, t.Name, opNames[t.op.kind])
	if t.op.what != "" {
		s += " " + t.op.what
	}
	if t.op.pos != "" {
		s += " at " + t.op.pos
	}
	return s
}

// schedule is called by the token holder after publishing its pending op (or
// after finishing).  It picks the next thread and transfers the token.  It
// returns when the calling thread is scheduled again (never, if it is done).
func (wd *World) schedule(self *Thread) {
	if wd.aborting {
		if !self.done {
			self.aborted = true
			runtime.Goexit()
		}
		return
	}
	wd.Steps++
	if wd.MaxSteps > 0 && wd.Steps > wd.MaxSteps {
		wd.Livelock = true
		wd.endExecution(self)
		return
	}
	var en []*Thread
	if !self.done && wd.enabled(self) {
		en = append(en, self)
	}
	// quiesce/join threads are considered last so that default order lets real work proceed
	for _, t := range wd.threads {
		if t != self && !t.done && wd.enabled(t) {
			en = append(en, t)
		}
	}
	if len(en) == 0 {
		alive := 0
		var b strings.Builder
		for _, t := range wd.threads {
			if !t.done {
				alive++
				fmt.Fprintf(&b, "  %s\n", wd.describe(t))
			}
		}
		if alive > 0 {
			wd.Deadlock = b.String()
		}
		wd.endExecution(self)
		return
	}
	next := en[0]
	if len(en) > 1 {
		i := wd.chooser.Choose(len(en), "sched", func() string {
			var parts []string
			for _, t := range en {
				parts = append(parts, wd.describe(t))
			}
			return strings.Join(parts, " | ")
		})
		next = en[i]
	}
	if DebugTrace {
		fmt.Fprintf(os.Stderr, "vrt: -> T%d %s %s %s\n", next.ID, opNames[next.op.kind], next.op.what, next.op.pos)
	}
	if wd.traceOn {
		wd.Trace = append(wd.Trace, fmt.Sprintf("T%d:%s:%s", next.ID, opNames[next.op.kind], next.op.pos))
	}
	if next == self {
		return
	}
	wd.cur = next
	next.wake <- struct{}{}
	if self.done {
		return
	}
	<-self.wake
	if wd.aborting {
		self.aborted = true
		runtime.Goexit()
	}
	wd.curG = goid()
}

// endExecution stops the execution: the main harness thread is released (if it
// is not the caller) so that Run can return; every other thread is aborted by Run.
func (wd *World) endExecution(self *Thread) {
	wd.aborting = true
	wd.ender = self
	select {
	case <-wd.finished:
	default:
		close(wd.finished)
	}
	if !self.done {
		self.aborted = true
		runtime.Goexit()
	}
}

// yield publishes op and reschedules.
func yield(op pendingOp) {
	if w == nil {
		panic("vrt: instrumented operation outside an execution")
	}
	if w.aborting {
		// during teardown every operation is a no-op: deferred functions of
		// aborted threads must not block
		return
	}
	checkG()
	self := w.cur
	op.committed = -1
	if op.pos == "" {
		op.pos = callerPos(3)
	}
	self.op = op
	w.schedule(self)
	if !w.aborting {
		// keep the commitment visible to the operation that follows
		c := self.op.committed
		self.op = pendingOp{kind: opNone, committed: c}
	}
}

// Step is a plain scheduling point.
func Step(what string) { yield(pendingOp{kind: opYield, what: what}) }

// ---------------------------------------------------------------------------
// threads

// Go starts f as a new controlled thread.
func Go(f func()) {
	if w == nil {
		panic("vrt.Go outside an execution")
	}
	if w.aborting {
		return
	}
	checkG()
	t := &Thread{ID: len(w.threads), wake: make(chan struct{}), exited: make(chan struct{}), Name: callerPos(2)}
	t.op = pendingOp{kind: opStart, committed: -1, pos: t.Name}
	if RaceDetect {
		t.vc = w.cur.vc.copy()
		w.cur.tick()
	}
	w.threads = append(w.threads, t)
	if RaceDetect {
		t.tick()
	}
	wd := w
	go func() {
		defer close(t.exited)
		<-t.wake
		if wd.aborting {
			t.done = true
			return
		}
		wd.curG = goid()
		t.started = true
		defer wd.threadExit(t)
		f()
	}()
	Step("go")
}

func (wd *World) threadExit(t *Thread) {
	if r := recover(); r != nil {
		if wd.Panic == "" {
			wd.Panic = fmt.Sprintf("panic in T%d(%s): %v\n%s", t.ID, t.Name, r, stack())
		}
		t.done = true
		if !wd.aborting {
			wd.endExecution(t)
		}
		return
	}
	t.done = true
	if t.aborted || wd.aborting {
		return
	}
	if t.ID == 0 {
		// main harness thread finished: the execution is over
		wd.endExecution(t)
		return
	}
	wd.schedule(t)
}

// Result of one execution.
type Result struct {
	Deadlock string
	Panic    string
	Livelock bool
	Steps    int
	Threads  int
	Trace    []string
	Leftover []string // threads still alive (blocked) when the main thread returned
}

// Run executes body as thread 0 under the chooser and returns when the
// execution is over (main returned, deadlock, panic or step limit).
func Run(ch Chooser, trace bool, maxSteps int, body func()) Result {
	wd := &World{chans: map[uintptr]*chanState{}, chooser: ch, finished: make(chan struct{}), traceOn: trace, MaxSteps: maxSteps, userData: map[string]interface{}{}}
	w = wd
	t0 := &Thread{ID: 0, wake: make(chan struct{}), exited: make(chan struct{}), Name: "main"}
	t0.op = pendingOp{kind: opStart, committed: -1}
	wd.threads = append(wd.threads, t0)
	wd.cur = t0
	go func() {
		defer close(t0.exited)
		wd.curG = goid()
		t0.started = true
		defer wd.threadExit(t0)
		body()
	}()
	<-wd.finished
	res := Result{Deadlock: wd.Deadlock, Panic: wd.Panic, Livelock: wd.Livelock, Steps: wd.Steps, Threads: len(wd.threads), Trace: wd.Trace}
	// tear down: wake every parked thread so that it exits (Goexit runs its defers; all ops are no-ops now)
	for _, t := range wd.threads {
		if !t.done {
			res.Leftover = append(res.Leftover, wd.describe(t))
		}
	}
	sort.Strings(res.Leftover)
	// The thread that ended the execution is unwinding (or has returned); wait
	// for it, then unwind the parked threads strictly one at a time so that
	// their deferred functions never run concurrently.
	if wd.ender != nil {
		<-wd.ender.exited
	}
	for i := 0; i < len(wd.threads); i++ { // threads may not grow during teardown (Go is a no-op)
		t := wd.threads[i]
		if t == wd.ender {
			continue
		}
		select {
		case <-t.exited:
			continue
		default:
		}
		select {
		case t.wake <- struct{}{}:
		case <-t.exited:
		}
		<-t.exited
	}
	w = nil
	return res
}

// Quiesce blocks the calling (harness) thread until no other thread is enabled.
func Quiesce() { yield(pendingOp{kind: opQuiesce}) }

// Await blocks the calling thread until pred holds.  pred must read only state
// that changes while some controlled thread holds the token (simulated
// environment objects); it is evaluated by the scheduler.  If abort is in
// progress it returns immediately.
func Await(what string, pred func() bool) {
	yield(pendingOp{kind: opAwait, what: what, pred: pred})
}

// Spin is called by simulated environment objects when a polling loop asked
// again and nothing had changed: the caller runs on only when no thread with
// real work is enabled (a fair scheduler lets the others make progress; the
// skipped iterations are stutter steps).  A loop that polls forever therefore
// runs into the step limit and is reported as a livelock.
func Spin(what string) { yield(pendingOp{kind: opSpin, what: what}) }

// Join blocks the calling thread until every other thread has finished.
func Join() {
	yield(pendingOp{kind: opJoin})
	if hbActive() {
		for _, t := range w.threads {
			if t.done {
				w.cur.vc = join(w.cur.vc, t.vc)
			}
		}
	}
}

// Alive returns descriptions of the threads (other than the caller) that have not finished.
func Alive() []string {
	var out []string
	for _, t := range w.threads {
		if t != w.cur && !t.done {
			out = append(out, w.describe(t))
		}
	}
	return out
}

// Active reports whether an execution is in progress (instrumented code may
// run outside executions in harness set-up code; operations then act directly).
func Active() bool { return w != nil && !w.aborting }
