// Package seqx holds the bounded-exhaustive enumerators for sequential code.
package seqx

import (
	"runtime"
	"sort"
	"sync"
	"time"
)

// Result of executing one history on a fresh instance of the real code.
type Result struct {
	Key       string // canonical form of the (model) state reached; "" = history not applicable (op disabled)
	Violation string // non-empty: the real code disagreed with the reference model / invariant at the last step
	VKey      string // identity of the violation (for de-duplication / known findings)
}

type Stats struct {
	States, Transitions, MaxDepth int
	DepthComplete                 int // deepest level whose successors were all generated
	Exhaustive                    bool
	Longest                       []int
	FrontierSizes                 []int
}

// BFS explores all histories over ops [0,nOps) breadth first, deduplicating on
// Result.Key.  Because live objects cannot be cloned, a successor is produced by
// run(history+op) which replays the shortest known history to the parent state
// on a fresh instance and applies one more operation.  onViol is called for
// every violating transition (the successor of a violating transition is not
// explored further).  maxDepth<=0 means: to fixpoint.
func BFS(nOps, maxDepth int, deadline time.Time, run func(hist []int) Result, onViol func(hist []int, r Result)) Stats {
	st := Stats{Exhaustive: true}
	seen := map[string]bool{}
	root := run(nil)
	seen[root.Key] = true
	st.States = 1
	frontier := [][]int{{}}
	type out struct {
		h []int
		r Result
	}
	for depth := 0; len(frontier) > 0; depth++ {
		if maxDepth > 0 && depth >= maxDepth {
			st.Exhaustive = false // bounded by depth, not a fixpoint
			break
		}
		st.FrontierSizes = append(st.FrontierSizes, len(frontier))
		if !deadline.IsZero() && time.Now().After(deadline) {
			st.Exhaustive = false
			break
		}
		outs := make([][]out, len(frontier))
		var wg sync.WaitGroup
		sem := make(chan struct{}, runtime.NumCPU())
		for i := range frontier {
			wg.Add(1)
			sem <- struct{}{}
			go func(i int) {
				defer wg.Done()
				defer func() { <-sem }()
				for op := 0; op < nOps; op++ {
					h := append(append(make([]int, 0, len(frontier[i])+1), frontier[i]...), op)
					r := run(h)
					outs[i] = append(outs[i], out{h, r})
				}
			}(i)
		}
		wg.Wait()
		var next [][]int
		for i := range outs {
			for _, o := range outs[i] {
				if o.r.Key == "" && o.r.Violation == "" {
					continue // disabled
				}
				st.Transitions++
				if o.r.Violation != "" {
					onViol(o.h, o.r)
					continue
				}
				if !seen[o.r.Key] {
					seen[o.r.Key] = true
					st.States++
					next = append(next, o.h)
					if len(o.h) > st.MaxDepth {
						st.MaxDepth = len(o.h)
						st.Longest = o.h
					}
				}
			}
		}
		st.DepthComplete = depth + 1
		sort.Slice(next, func(a, b int) bool { return less(next[a], next[b]) })
		frontier = next
	}
	return st
}

func less(a, b []int) bool {
	for i := range a {
		if i >= len(b) {
			return false
		}
		if a[i] != b[i] {
			return a[i] < b[i]
		}
	}
	return len(a) < len(b)
}
