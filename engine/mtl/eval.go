package mtl

import (
	"fmt"
	"math"
	"regexp"
	"sort"
	"strconv"
	"strings"
	"sync"
)

// Val is a runtime value of the reference interpreter.
type Val struct {
	T Type
	I int64
	F float64
	S string
	B bool
}

func (v Val) String() string {
	switch v.T {
	case TInt:
		return fmt.Sprintf("i:%d", v.I)
	case TFloat:
		if math.IsNaN(v.F) {
			return "f:NaN"
		}
		return fmt.Sprintf("f:%x", math.Float64bits(v.F))
	case TString:
		return fmt.Sprintf("s:%q", v.S)
	}
	return fmt.Sprintf("b:%v", v.B)
}

type Datum struct {
	V      Val
	Expiry string
}

// Store is the reference metric store: metric -> label key -> datum.
type Store struct {
	M     map[string]map[string]*Datum
	Decls map[string]Decl
}

func NewStore(p *Program) *Store {
	s := &Store{M: map[string]map[string]*Datum{}, Decls: map[string]Decl{}}
	for _, d := range p.Decls {
		s.M[d.Name] = map[string]*Datum{}
		s.Decls[d.Name] = d
	}
	return s
}

func labelKey(ls []string) string { return fmt.Sprintf("%q", ls) }

// Dump renders the store canonically: one line per (metric, label tuple).
// Dimensionless metrics that were never touched are listed with their zero
// value, as the real store creates their datum at load time.
func (s *Store) Dump(withExpiry bool) string {
	var out []string
	for name, m := range s.M {
		for k, d := range m {
			l := fmt.Sprintf("%s %s = %s", name, k, d.V)
			if withExpiry && d.Expiry != "" {
				l += " expiry=" + d.Expiry
			}
			out = append(out, l)
		}
	}
	sort.Strings(out)
	return strings.Join(out, "\n")
}

func zero(t Type) Val { return Val{T: t} }

func (s *Store) get(name string, labels []string, create bool) *Datum {
	m := s.M[name]
	k := labelKey(labels)
	d := m[k]
	if d == nil && create {
		d = &Datum{V: zero(s.Decls[name].T)}
		m[k] = d
	}
	return d
}

type rtError struct{ msg string }
type stopSignal struct{}

type interp struct {
	p     *Program
	st    *Store
	line  string
	file  string
	caps  map[string]string
	defs  map[string]DecoDef
	decoS [][]Stmt // bodies of the decorators being applied (for next)
}

var reCache sync.Map

func re(s string) *regexp.Regexp {
	if r, ok := reCache.Load(s); ok {
		return r.(*regexp.Regexp)
	}
	r := regexp.MustCompile(s)
	reCache.Store(s, r)
	return r
}

// RunLine applies the program to one line.  It reports whether a runtime
// error aborted the line (effects made before the error are kept).
func RunLine(p *Program, st *Store, file, line string) (rtErr bool, errMsg string) {
	in := &interp{p: p, st: st, line: line, file: file, caps: map[string]string{}, defs: map[string]DecoDef{}}
	for _, d := range p.Defs {
		in.defs[d.Name] = d
	}
	defer func() {
		if r := recover(); r != nil {
			switch x := r.(type) {
			case rtError:
				rtErr, errMsg = true, x.msg
			case stopSignal:
			default:
				panic(r)
			}
		}
	}()
	in.block(p.Stmts)
	return
}

func (in *interp) fail(f string, a ...interface{}) { panic(rtError{fmt.Sprintf(f, a...)}) }

// block executes statements of one scope; `otherwise` fires iff no preceding
// conditional of this same scope has matched.
func (in *interp) block(ss []Stmt) {
	matched := false
	for _, s := range ss {
		switch x := s.(type) {
		case Cond:
			// capture groups are scoped to the conditional that defines them: an inner pattern with the
			// same group names shadows the outer one only inside its own block
			saved := in.caps
			in.caps = make(map[string]string, len(saved)+2)
			for k, v := range saved {
				in.caps[k] = v
			}
			if in.truth(x.C) {
				matched = true
				in.block(x.Then)
			} else if x.Else != nil {
				in.block(x.Else)
			}
			in.caps = saved
		case Otherwise:
			if !matched {
				matched = true
				in.block(x.Body)
			}
		case Assign:
			in.assign(x)
		case Del:
			ls := in.labels(x.Target.Idx)
			if x.After == "" {
				delete(in.st.M[x.Target.Name], labelKey(ls))
			} else {
				d := in.st.get(x.Target.Name, ls, false)
				if d == nil {
					in.fail("no datum to expire for %q", ls)
				}
				d.Expiry = x.After
			}
		case Stop:
			panic(stopSignal{})
		case Next:
			if len(in.decoS) == 0 {
				in.fail("next outside a decorator")
			}
			body := in.decoS[len(in.decoS)-1]
			saved := in.decoS
			in.decoS = in.decoS[:len(in.decoS)-1]
			in.block(body)
			in.decoS = saved
		case Deco:
			def, ok := in.defs[x.Name]
			if !ok {
				in.fail("undefined decorator")
			}
			in.decoS = append(in.decoS, x.Body)
			in.block(def.Body)
			in.decoS = in.decoS[:len(in.decoS)-1]
		default:
			panic(fmt.Sprintf("mtl: cannot execute %T", s))
		}
	}
}

func (in *interp) labels(idx []Expr) []string {
	out := make([]string, len(idx))
	for i, e := range idx {
		out[i] = in.str(in.eval(e))
	}
	return out
}

// str renders a value the way it is used as a label or converted by string().
func (in *interp) str(v Val) string {
	switch v.T {
	case TInt:
		return strconv.FormatInt(v.I, 10)
	case TFloat:
		return strconv.FormatFloat(v.F, 'g', -1, 64)
	case TString:
		return v.S
	}
	return fmt.Sprint(v.B)
}

func (in *interp) assign(a Assign) {
	ls := in.labels(a.Target.Idx)
	switch a.Op {
	case "++", "--":
		d := in.st.get(a.Target.Name, ls, true)
		delta := int64(1)
		if a.Op == "--" {
			delta = -1
		}
		if d.V.T == TFloat {
			d.V.F += float64(delta)
		} else {
			d.V.I += delta
		}
	case "=", "+=":
		v := in.eval(a.RHS)
		d := in.st.get(a.Target.Name, ls, true)
		v = in.convert(v, d.V.T)
		if a.Op == "=" {
			d.V = v
			return
		}
		switch d.V.T {
		case TInt:
			d.V.I += v.I
		case TFloat:
			d.V.F += v.F
		case TString:
			d.V.S += v.S
		}
	}
}

// convert is the implicit conversion applied when a value meets a slot of another type.
func (in *interp) convert(v Val, t Type) Val {
	if v.T == t {
		return v
	}
	switch t {
	case TInt:
		switch v.T {
		case TString:
			i, err := strconv.ParseInt(v.S, 10, 64)
			if err != nil {
				in.fail("%v", err)
			}
			return Val{T: TInt, I: i}
		case TFloat:
			return Val{T: TInt, I: int64(v.F)}
		}
	case TFloat:
		switch v.T {
		case TInt:
			return Val{T: TFloat, F: float64(v.I)}
		case TString:
			f, err := strconv.ParseFloat(v.S, 64)
			if err != nil {
				in.fail("%v", err)
			}
			return Val{T: TFloat, F: f}
		}
	case TString:
		return Val{T: TString, S: in.str(v)}
	}
	in.fail("cannot convert %v to %v", v.T, t)
	return v
}

func (in *interp) truth(e Expr) bool {
	v := in.eval(e)
	if v.T != TBool {
		panic(fmt.Sprintf("mtl: condition of type %v", v.T))
	}
	return v.B
}

func (in *interp) match(reSrc, s string) bool {
	r := re(reSrc)
	m := r.FindStringSubmatch(s)
	if m == nil {
		return false
	}
	for i, n := range r.SubexpNames() {
		if n != "" {
			in.caps[n] = m[i]
		}
	}
	return true
}

func (in *interp) eval(e Expr) Val {
	switch x := e.(type) {
	case IntLit:
		return Val{T: TInt, I: x.V}
	case FloatLit:
		return Val{T: TFloat, F: x.V}
	case StrLit:
		return Val{T: TString, S: x.S}
	case Cap:
		s, ok := in.caps[x.Name]
		if !ok {
			in.fail("capture group %s of a pattern that did not match", x.Name)
		}
		return in.convert(Val{T: TString, S: s}, x.T)
	case Ref:
		d := in.st.get(x.Name, in.labels(x.Idx), true)
		return d.V
	case Pat:
		return Val{T: TBool, B: in.match(x.Re, in.line)}
	case Match:
		ok := in.match(x.Re, in.str(in.eval(x.L)))
		return Val{T: TBool, B: ok != x.Neg}
	case Call:
		return in.call(x)
	case Bin:
		return in.bin(x)
	}
	panic(fmt.Sprintf("mtl: cannot evaluate %T", e))
}

func (in *interp) call(c Call) Val {
	arg := func(i int) Val { return in.eval(c.Args[i]) }
	switch c.Fn {
	case "int":
		return in.convert(arg(0), TInt)
	case "float":
		return in.convert(arg(0), TFloat)
	case "string":
		return in.convert(arg(0), TString)
	case "len":
		return Val{T: TInt, I: int64(len(in.str(arg(0))))}
	case "tolower":
		return Val{T: TString, S: strings.ToLower(in.str(arg(0)))}
	case "strtol":
		s, b := in.str(arg(0)), in.convert(arg(1), TInt).I
		if b <= 0 || b >= math.MaxInt32 {
			in.fail("base out of range")
		}
		i, err := strconv.ParseInt(s, int(b), 64)
		if err != nil {
			in.fail("%v", err)
		}
		return Val{T: TInt, I: i}
	case "subst":
		old, nw, val := c.Args[0], in.str(arg(1)), in.str(arg(2))
		if p, ok := old.(Pat); ok {
			return Val{T: TString, S: re(p.Re).ReplaceAllLiteralString(val, nw)}
		}
		return Val{T: TString, S: strings.ReplaceAll(val, in.str(in.eval(old)), nw)}
	case "getfilename":
		return Val{T: TString, S: in.file}
	}
	panic("mtl: unknown builtin " + c.Fn)
}

func (in *interp) bin(b Bin) Val {
	switch b.Op {
	case "&&":
		if !in.truth(b.L) {
			return Val{T: TBool, B: false}
		}
		return Val{T: TBool, B: in.truth(b.R)}
	case "||":
		if in.truth(b.L) {
			return Val{T: TBool, B: true}
		}
		return Val{T: TBool, B: in.truth(b.R)}
	}
	l, r := in.eval(b.L), in.eval(b.R)
	switch b.Op {
	case "<", "<=", ">", ">=", "==", "!=":
		var c int
		switch {
		case l.T == TString && r.T == TString:
			c = strings.Compare(l.S, r.S)
		case l.T == TFloat || r.T == TFloat:
			lf, rf := in.convert(l, TFloat).F, in.convert(r, TFloat).F
			switch {
			case lf < rf:
				c = -1
			case lf > rf:
				c = 1
			case lf == rf:
				c = 0
			default: // NaN involved: only != holds
				return Val{T: TBool, B: b.Op == "!="}
			}
		default:
			li, ri := in.convert(l, TInt).I, in.convert(r, TInt).I
			switch {
			case li < ri:
				c = -1
			case li > ri:
				c = 1
			}
		}
		var res bool
		switch b.Op {
		case "<":
			res = c < 0
		case "<=":
			res = c <= 0
		case ">":
			res = c > 0
		case ">=":
			res = c >= 0
		case "==":
			res = c == 0
		case "!=":
			res = c != 0
		}
		return Val{T: TBool, B: res}
	case "<<", ">>", "&", "|", "^":
		a, c := in.convert(l, TInt).I, in.convert(r, TInt).I
		switch b.Op {
		case "<<", ">>":
			if c < 0 || c >= math.MaxInt32 {
				in.fail("shift out of range")
			}
			if b.Op == "<<" {
				return Val{T: TInt, I: a << uint(c)}
			}
			return Val{T: TInt, I: a >> uint(c)}
		case "&":
			return Val{T: TInt, I: a & c}
		case "|":
			return Val{T: TInt, I: a | c}
		}
		return Val{T: TInt, I: a ^ c}
	}
	// arithmetic
	if l.T == TString && r.T == TString && b.Op == "+" {
		return Val{T: TString, S: l.S + r.S}
	}
	if l.T == TFloat || r.T == TFloat {
		a, c := in.convert(l, TFloat).F, in.convert(r, TFloat).F
		switch b.Op {
		case "+":
			return Val{T: TFloat, F: a + c}
		case "-":
			return Val{T: TFloat, F: a - c}
		case "*":
			return Val{T: TFloat, F: a * c}
		case "/":
			return Val{T: TFloat, F: a / c}
		case "%":
			return Val{T: TFloat, F: math.Mod(a, c)}
		case "**":
			return Val{T: TFloat, F: math.Pow(a, c)}
		}
	}
	a, c := in.convert(l, TInt).I, in.convert(r, TInt).I
	switch b.Op {
	case "+":
		return Val{T: TInt, I: a + c}
	case "-":
		return Val{T: TInt, I: a - c}
	case "*":
		return Val{T: TInt, I: a * c}
	case "/":
		if c == 0 {
			in.fail("divide by zero")
		}
		return Val{T: TInt, I: a / c}
	case "%":
		if c == 0 {
			in.fail("divide by zero")
		}
		return Val{T: TInt, I: a % c}
	case "**":
		return Val{T: TInt, I: int64(math.Pow(float64(a), float64(c)))}
	}
	panic("mtl: unknown operator " + b.Op)
}
