package mtl

import "fmt"

// Case is one generated program with the line alphabet to run it on.
type Case struct {
	Family string
	P      *Program
	Lines  []string
}

// ---- F-expr: every binary operator between typed atoms, in several placements

const exprPattern = `^(?P<i>\d+) (?P<f>\d+\.\d+) (?P<s>\w+)$`

var exprLines = []string{"3 0.5 ab", "0 2.0 x", "7 1.5 7", "12 0.25 AB", "nomatch"}

var arith = []string{"+", "-", "*", "/", "%", "**"}
var bitw = []string{"<<", ">>", "&", "|", "^"}
var rel = []string{"<", "<=", ">", ">=", "==", "!="}

func numAtoms() []Expr {
	return []Expr{
		IntLit{0}, IntLit{1}, IntLit{2}, IntLit{-3},
		FloatLit{0.5}, FloatLit{2.0},
		Cap{"i", TInt}, Cap{"f", TFloat},
		Ref{Name: "gi", T: TInt}, Ref{Name: "gf", T: TFloat},
	}
}

func isInt(e Expr) bool { return e.typ() == TInt }

// exprProgram wraps an expression in the common frame: gi and gf are set from
// the captures first, so that metric reads are meaningful atoms.
func exprProgram(place string, e Expr) *Program {
	p := &Program{Decls: []Decl{{Kind: "gauge", Name: "gi", T: TInt}, {Kind: "gauge", Name: "gf", T: TFloat}}}
	body := []Stmt{
		Assign{Target: Ref{Name: "gi", T: TInt}, Op: "=", RHS: Cap{"i", TInt}},
		Assign{Target: Ref{Name: "gf", T: TFloat}, Op: "=", RHS: Cap{"f", TFloat}},
	}
	t := e.typ()
	switch place {
	case "assign":
		p.Decls = append(p.Decls, Decl{Kind: "gauge", Name: "r", T: t})
		body = append(body, Assign{Target: Ref{Name: "r", T: t}, Op: "=", RHS: e})
	case "addassign":
		p.Decls = append(p.Decls, Decl{Kind: "counter", Name: "c", T: t})
		body = append(body, Assign{Target: Ref{Name: "c", T: t}, Op: "+=", RHS: e})
	case "cond":
		p.Decls = append(p.Decls, Decl{Kind: "counter", Name: "hit", T: TInt}, Decl{Kind: "counter", Name: "miss", T: TInt})
		c := e
		if t != TBool {
			c = Bin{">", e, IntLit{1}}
		}
		body = append(body, Cond{C: c, Then: []Stmt{Assign{Target: Ref{Name: "hit", T: TInt}, Op: "++"}}, Else: []Stmt{Assign{Target: Ref{Name: "miss", T: TInt}, Op: "++"}}})
	case "index":
		p.Decls = append(p.Decls, Decl{Kind: "counter", Name: "m", Keys: []string{"k"}, T: TInt})
		body = append(body, Assign{Target: Ref{Name: "m", Idx: []Expr{e}, T: TInt}, Op: "++"})
	}
	p.Stmts = []Stmt{Cond{C: Pat{exprPattern}, Then: body}}
	return p
}

func GenExpr(thorough bool) []Case {
	var out []Case
	atoms := numAtoms()
	add := func(fam, place string, e Expr) {
		out = append(out, Case{Family: fam, P: exprProgram(place, e), Lines: exprLines})
	}
	for _, l := range atoms {
		for _, r := range atoms {
			for _, op := range arith {
				if z, ok := r.(IntLit); ok && z.V == 0 && (op == "/" || op == "%") {
					continue // division or modulus by a literal zero is refused at compile time (C02)
				}
				e := Bin{op, l, r}
				for _, pl := range []string{"assign", "addassign", "cond", "index"} {
					add("expr-arith", pl, e)
				}
			}
			if isInt(l) && isInt(r) {
				for _, op := range bitw {
					e := Bin{op, l, r}
					for _, pl := range []string{"assign", "addassign", "cond", "index"} {
						add("expr-bitwise", pl, e)
					}
				}
			}
			for _, op := range rel {
				add("expr-relational", "cond", Bin{op, l, r})
			}
		}
	}
	// logical combinations of relational atoms and match expressions (short circuit incl. an erroring right side)
	conds := []Expr{
		Bin{">", Cap{"i", TInt}, IntLit{2}}, Bin{"<", Cap{"f", TFloat}, FloatLit{1.0}}, Bin{"==", Cap{"s", TString}, StrLit{"ab"}},
		Match{false, Cap{"s", TString}, "^a"}, Match{true, Cap{"s", TString}, "x"},
		Bin{">", Bin{"/", IntLit{6}, Cap{"i", TInt}}, IntLit{1}}, // raises a runtime error when $i == 0
		Bin{"!=", Call{"tolower", []Expr{Cap{"s", TString}}, TString}, Cap{"s", TString}},
	}
	isMatch := func(e Expr) bool { _, ok := e.(Match); return ok }
	for _, a := range conds {
		for _, b := range conds {
			if isMatch(a) && isMatch(b) {
				continue // two pattern matches in one condition: see GenDocumented
			}
			for _, op := range []string{"&&", "||"} {
				add("expr-logical", "cond", Bin{op, a, b})
				if thorough {
					for _, c := range conds[:3] {
						for _, op2 := range []string{"&&", "||"} {
							add("expr-logical", "cond", Bin{op2, Bin{op, a, b}, c})
						}
					}
				}
			}
		}
	}
	// strings and builtins
	strs := []Expr{Cap{"s", TString}, StrLit{"ab"}, Call{"tolower", []Expr{Cap{"s", TString}}, TString},
		Call{"string", []Expr{Cap{"i", TInt}}, TString}, Call{"string", []Expr{Bin{"+", Cap{"i", TInt}, IntLit{1}}}, TString},
		Call{"subst", []Expr{StrLit{"a"}, StrLit{"zz"}, Cap{"s", TString}}, TString},
		Call{"subst", []Expr{Pat{"[aA]"}, StrLit{"-"}, Cap{"s", TString}}, TString},
		Bin{"+", Cap{"s", TString}, StrLit{"_x"}},
	}
	for _, s := range strs {
		add("expr-string", "index", s)
		add("expr-string", "cond", Bin{"==", s, StrLit{"ab"}})
		add("expr-string", "cond", Bin{"!=", s, Cap{"s", TString}})
		out = append(out, Case{Family: "expr-string", P: textProgram(s), Lines: exprLines})
	}
	nums := []Expr{
		Call{"len", []Expr{Cap{"s", TString}}, TInt}, Call{"int", []Expr{Cap{"s", TString}}, TInt}, Call{"float", []Expr{Cap{"s", TString}}, TFloat},
		Call{"float", []Expr{Cap{"i", TInt}}, TFloat},
		Call{"strtol", []Expr{Cap{"s", TString}, IntLit{16}}, TInt}, Call{"strtol", []Expr{Cap{"s", TString}, IntLit{8}}, TInt}, Call{"strtol", []Expr{Cap{"i", TInt}, IntLit{0}}, TInt},
		Call{"int", []Expr{Bin{"+", Cap{"s", TString}, StrLit{"0"}}}, TInt},
	}
	for _, n := range nums {
		for _, pl := range []string{"assign", "addassign", "cond", "index"} {
			add("expr-builtin", pl, n)
		}
		add("expr-builtin", "assign", Bin{"+", n, IntLit{1}})
		add("expr-builtin", "assign", Bin{"*", FloatLit{0.5}, n})
	}
	return out
}

func textProgram(e Expr) *Program {
	return &Program{
		Decls: []Decl{{Kind: "text", Name: "t", T: TString}},
		Stmts: []Stmt{Cond{C: Pat{exprPattern}, Then: []Stmt{Assign{Target: Ref{Name: "t", T: TString}, Op: "=", RHS: e}}}},
	}
}

// ---- precedence: a op1 b op2 c for all ordered operator pairs, written
// without parentheses (the tree is built with the grammar's precedence table,
// so the printer emits none) and with each explicit parenthesisation.

func GenPrecedence() []Case {
	var out []Case
	ops := append(append(append([]string{}, arith...), bitw...), rel...)
	a, b, c := Expr(Cap{"i", TInt}), Expr(IntLit{7}), Expr(IntLit{2}) // no sub-expression of the constants folds to zero
	okTypes := func(op string, l, r Expr) bool {
		if l.typ() == TBool || r.typ() == TBool {
			return false // relational results are not operands of further arithmetic in well-typed programs
		}
		return true
	}
	for _, o1 := range ops {
		for _, o2 := range ops {
			var flat Expr
			if Prec(o2) > Prec(o1) {
				if !okTypes(o2, b, c) || !okTypes(o1, a, Bin{o2, b, c}) {
					continue
				}
				flat = Bin{o1, a, Bin{o2, b, c}}
			} else {
				if !okTypes(o1, a, b) || !okTypes(o2, Bin{o1, a, b}, c) {
					continue
				}
				flat = Bin{o2, Bin{o1, a, b}, c}
			}
			place := "assign"
			if flat.typ() == TBool {
				place = "cond"
			}
			out = append(out, Case{Family: "precedence", P: exprProgram(place, flat), Lines: exprLines})
			// the other parenthesisation, when well-typed
			var other Expr
			if Prec(o2) > Prec(o1) {
				if okTypes(o1, a, b) && okTypes(o2, Bin{o1, a, b}, c) {
					other = Bin{o2, Bin{o1, a, b}, c}
				}
			} else if okTypes(o2, b, c) && okTypes(o1, a, Bin{o2, b, c}) {
				other = Bin{o1, a, Bin{o2, b, c}}
			}
			if other != nil {
				pl := "assign"
				if other.typ() == TBool {
					pl = "cond"
				}
				out = append(out, Case{Family: "precedence", P: exprProgram(pl, other), Lines: exprLines})
			}
		}
	}
	// logical level against relational and bitwise
	r1, r2, r3 := Expr(Bin{">", Cap{"i", TInt}, IntLit{2}}), Expr(Bin{"<", Cap{"f", TFloat}, FloatLit{1.0}}), Expr(Bin{"==", Cap{"s", TString}, StrLit{"ab"}})
	for _, o1 := range []string{"&&", "||"} {
		for _, o2 := range []string{"&&", "||"} {
			out = append(out, Case{Family: "precedence", P: exprProgram("cond", Bin{o2, Bin{o1, r1, r2}, r3}), Lines: exprLines})
			out = append(out, Case{Family: "precedence", P: exprProgram("cond", Bin{o1, r1, Bin{o2, r2, r3}}), Lines: exprLines})
		}
	}
	return out
}

// ---- F-ctl: control-flow trees with a distinct trace counter at every leaf

var ctlPatterns = []string{"a", "b", `(?P<n>\d+)`}
var ctlLines = []string{"a", "b", "ab", "a1", "7", "zzz", "b22"}

type ctlGen struct {
	leaf int
	p    *Program
}

func (g *ctlGen) trace() Stmt {
	g.leaf++
	n := fmt.Sprintf("t%d", g.leaf)
	g.p.Decls = append(g.p.Decls, Decl{Kind: "counter", Name: n, T: TInt})
	return Assign{Target: Ref{Name: n, T: TInt}, Op: "++"}
}

// shapes of one block, encoded as small integers (see build)
func GenCtl(thorough bool) []Case {
	var out []Case
	type tmpl func(g *ctlGen) []Stmt
	var shapes func(depth, budget int) []tmpl
	shapes = func(depth, budget int) []tmpl {
		res := []tmpl{func(g *ctlGen) []Stmt { return []Stmt{g.trace()} }}
		if depth == 0 || budget == 0 {
			return res
		}
		inner := shapes(depth-1, budget-1)
		var innerSmall []tmpl
		if budget >= 2 {
			innerSmall = shapes(depth-1, (budget-1)/2)
		} else {
			innerSmall = inner[:1]
		}
		for pi := range ctlPatterns {
			pi := pi
			for _, th := range inner {
				th := th
				// cond
				res = append(res, func(g *ctlGen) []Stmt {
					return []Stmt{Cond{C: Pat{ctlPatterns[pi]}, Then: th(g)}, g.trace()}
				})
				// cond ; otherwise
				res = append(res, func(g *ctlGen) []Stmt {
					return []Stmt{Cond{C: Pat{ctlPatterns[pi]}, Then: th(g)}, Otherwise{Body: []Stmt{g.trace()}}, g.trace()}
				})
				// cond with stop inside
				res = append(res, func(g *ctlGen) []Stmt {
					return []Stmt{Cond{C: Pat{ctlPatterns[pi]}, Then: append(th(g), Stop{})}, g.trace()}
				})
			}
			for _, th := range innerSmall {
				for _, el := range innerSmall {
					th, el := th, el
					// cond / else
					res = append(res, func(g *ctlGen) []Stmt {
						return []Stmt{Cond{C: Pat{ctlPatterns[pi]}, Then: th(g), Else: el(g)}, g.trace()}
					})
				}
				if budget >= 2 && pi < 2 {
					pj := (pi + 1) % 2
					th := th
					// a sibling conditional before a conditional whose else clause holds an `otherwise`
					res = append(res, func(g *ctlGen) []Stmt {
						return []Stmt{Cond{C: Pat{ctlPatterns[pj]}, Then: []Stmt{g.trace()}},
							Cond{C: Pat{ctlPatterns[pi]}, Then: th(g), Else: []Stmt{Cond{C: Pat{ctlPatterns[2]}, Then: []Stmt{g.trace()}}, Otherwise{Body: []Stmt{g.trace()}}}}, g.trace()}
					})
					// and an `otherwise` after a nested block whose inner conditional matched
					res = append(res, func(g *ctlGen) []Stmt {
						return []Stmt{Cond{C: Pat{ctlPatterns[pi]}, Then: []Stmt{Cond{C: Pat{ctlPatterns[pj]}, Then: th(g)}, g.trace()}}, Otherwise{Body: []Stmt{g.trace()}}}
					})
					// a conditional whose else clause has effects around its own conditions, with an `otherwise` of
					// the enclosing block behind it (the enclosing flag must survive the else clause, whatever the
					// statements in it leave behind)
					for variant := 0; variant < 4; variant++ {
						variant := variant
						res = append(res, func(g *ctlGen) []Stmt {
							var el []Stmt
							switch variant {
							case 0:
								el = []Stmt{g.trace(), Cond{C: Pat{ctlPatterns[2]}, Then: []Stmt{g.trace()}}}
							case 1:
								el = []Stmt{Cond{C: Pat{ctlPatterns[2]}, Then: []Stmt{g.trace()}}, g.trace()}
							case 2:
								el = []Stmt{g.trace(), Otherwise{Body: []Stmt{g.trace()}}}
							case 3:
								el = []Stmt{g.trace(), Cond{C: Pat{ctlPatterns[2]}, Then: []Stmt{g.trace()}}, Otherwise{Body: []Stmt{g.trace()}}, g.trace()}
							}
							return []Stmt{Cond{C: Pat{ctlPatterns[pj]}, Then: []Stmt{g.trace()}},
								Cond{C: Pat{ctlPatterns[pi]}, Then: th(g), Else: el}, Otherwise{Body: []Stmt{g.trace()}}, g.trace()}
						})
					}
					// two sibling conditionals followed by otherwise
					res = append(res, func(g *ctlGen) []Stmt {
						return []Stmt{Cond{C: Pat{ctlPatterns[pi]}, Then: th(g)}, Cond{C: Pat{ctlPatterns[pj]}, Then: []Stmt{g.trace()}}, Otherwise{Body: []Stmt{g.trace()}}}
					})
				}
			}
		}
		return res
	}
	depth, budget := 2, 3
	if thorough {
		depth, budget = 3, 4
	}
	for _, t := range shapes(depth, budget) {
		g := &ctlGen{p: &Program{}}
		g.p.Stmts = t(g)
		out = append(out, Case{Family: "control-flow", P: g.p, Lines: ctlLines})
	}
	return out
}

// ---- F-deco: decorators with next at every position, applied once / twice / nested

func GenDeco() []Case {
	var out []Case
	cnt := func(p *Program, n string) Stmt {
		p.Decls = append(p.Decls, Decl{Kind: "counter", Name: n, T: TInt})
		return Assign{Target: Ref{Name: n, T: TInt}, Op: "++"}
	}
	for pos := 0; pos < 3; pos++ { // position of `next` inside the decorator's inner block
		for use := 0; use < 3; use++ {
			p := &Program{}
			inner := []Stmt{cnt(p, "d_before"), cnt(p, "d_after")}
			switch pos {
			case 0:
				inner = []Stmt{Next{}, inner[0], inner[1]}
			case 1:
				inner = []Stmt{inner[0], Next{}, inner[1]}
			case 2:
				inner = []Stmt{inner[0], inner[1], Next{}}
			}
			p.Decls = append(p.Decls, Decl{Kind: "counter", Name: "by_key", Keys: []string{"k"}, T: TInt})
			p.Defs = []DecoDef{{Name: "d", Body: []Stmt{Cond{C: Pat{`^(?P<key>\w+) `}, Then: inner}, cnt(p, "d_tail")}}}
			body := []Stmt{Cond{C: Pat{"x"}, Then: []Stmt{cnt(p, "body_x"), Assign{Target: Ref{Name: "by_key", Idx: []Expr{Cap{"key", TString}}, T: TInt}, Op: "++"}}}, cnt(p, "body_all")}
			switch use {
			case 0:
				p.Stmts = []Stmt{Deco{Name: "d", Body: body}}
			case 1:
				p.Stmts = []Stmt{Deco{Name: "d", Body: body}, Deco{Name: "d", Body: []Stmt{cnt(p, "second")}}}
			case 2:
				p.Stmts = []Stmt{Deco{Name: "d", Body: []Stmt{Deco{Name: "d", Body: body}, cnt(p, "outer_tail")}}}
			}
			out = append(out, Case{Family: "decorator", P: p, Lines: []string{"k1 x", "k2 y", "nokey", "k1 xx"}})
		}
	}
	return out
}

// ---- F-decl: declarations x operations

func GenDecl() []Case {
	var out []Case
	lines := []string{"a 1", "b 2", "a 3", "zz"}
	pat := `^(?P<k>\w+) (?P<v>\d+)$`
	for _, kind := range []string{"counter", "gauge"} {
		for _, hidden := range []bool{false, true} {
			for nk := 0; nk <= 2; nk++ {
				for _, t := range []Type{TInt, TFloat} {
					keys := []string{"k1", "k2"}[:nk]
					idx := []Expr{Cap{"k", TString}, StrLit{"c"}}[:nk]
					tgt := Ref{Name: "m", Idx: idx, T: t}
					var v Expr = Cap{"v", TInt}
					if t == TFloat {
						v = Bin{"*", Cap{"v", TInt}, FloatLit{0.5}}
					}
					// a write that fixes the metric's value type (++ and -- are generated for integer metrics only:
					// the reference does not say whether they apply to floats, and a metric that is only ever
					// incremented is an integer metric)
					w := Stmt(Assign{Target: tgt, Op: "+=", RHS: v})
					opsList := [][]Stmt{
						{Assign{Target: tgt, Op: "+=", RHS: v}},
						{Assign{Target: tgt, Op: "=", RHS: v}},
						{Assign{Target: tgt, Op: "+=", RHS: v}, Assign{Target: Ref{Name: "copy", T: t}, Op: "=", RHS: tgt}},
					}
					if t == TInt {
						w = Assign{Target: tgt, Op: "++"}
						opsList = append(opsList, []Stmt{Assign{Target: tgt, Op: "++"}}, []Stmt{Assign{Target: tgt, Op: "=", RHS: v}, Assign{Target: tgt, Op: "--"}})
					}
					if nk > 0 {
						opsList = append(opsList,
							[]Stmt{w, Cond{C: Pat{"^a 3"}, Then: []Stmt{Del{Target: tgt}}}},
							[]Stmt{w, Cond{C: Pat{"^b"}, Then: []Stmt{Del{Target: tgt, After: "1h"}}}},
							[]Stmt{Cond{C: Pat{"^b"}, Then: []Stmt{Del{Target: tgt, After: "1h"}}}, w}, // expire of a missing datum: runtime error
							[]Stmt{Cond{C: Pat{"^b"}, Then: []Stmt{Del{Target: tgt}}}, w},              // del of a missing datum: silent
						)
					}
					for _, body := range opsList {
						p := &Program{Decls: []Decl{{Kind: kind, Name: "m", Keys: keys, Hidden: hidden, T: t}}}
						for _, s := range body {
							if a, ok := s.(Assign); ok && a.Target.Name == "copy" {
								p.Decls = append(p.Decls, Decl{Kind: "gauge", Name: "copy", T: t})
							}
						}
						p.Stmts = []Stmt{Cond{C: Pat{pat}, Then: body}}
						out = append(out, Case{Family: "declaration", P: p, Lines: lines})
					}
				}
			}
		}
	}
	return out
}

// ---- F-err: effect ; error ; effect — the first stays, the second never happens, one error is counted

func GenErr() []Case {
	var out []Case
	pat := `^(?P<s>\w+) (?P<i>\d+)$`
	errs := []Stmt{
		Assign{Target: Ref{Name: "g", T: TInt}, Op: "=", RHS: Call{"int", []Expr{Cap{"s", TString}}, TInt}},
		Assign{Target: Ref{Name: "gf", T: TFloat}, Op: "=", RHS: Call{"float", []Expr{Cap{"s", TString}}, TFloat}},
		Assign{Target: Ref{Name: "g", T: TInt}, Op: "=", RHS: Bin{"/", IntLit{10}, Cap{"i", TInt}}},
		Assign{Target: Ref{Name: "g", T: TInt}, Op: "=", RHS: Bin{"%", IntLit{10}, Cap{"i", TInt}}},
		Assign{Target: Ref{Name: "g", T: TInt}, Op: "=", RHS: Bin{"<<", IntLit{1}, Bin{"-", Cap{"i", TInt}, IntLit{1}}}},
		Assign{Target: Ref{Name: "g", T: TInt}, Op: "=", RHS: Call{"strtol", []Expr{Cap{"s", TString}, Cap{"i", TInt}}, TInt}},
		Del{Target: Ref{Name: "d", Idx: []Expr{Cap{"s", TString}}, T: TInt}, After: "1h"},
		Cond{C: Bin{">", Bin{"/", IntLit{10}, Cap{"i", TInt}}, IntLit{3}}, Then: []Stmt{Assign{Target: Ref{Name: "g", T: TInt}, Op: "=", RHS: IntLit{9}}}},
	}
	for _, e := range errs {
		for _, nested := range []bool{false, true} {
			p := &Program{Decls: []Decl{
				{Kind: "counter", Name: "before", T: TInt}, {Kind: "counter", Name: "aft", T: TInt}, {Kind: "counter", Name: "later", T: TInt},
				{Kind: "gauge", Name: "g", T: TInt}, {Kind: "gauge", Name: "gf", T: TFloat}, {Kind: "counter", Name: "d", Keys: []string{"k"}, T: TInt},
			}}
			used := map[string]bool{"before": true, "aft": true, "later": true}
			mark := func(s Stmt) {
				switch x := s.(type) {
				case Assign:
					used[x.Target.Name] = true
				case Del:
					used[x.Target.Name] = true
				case Cond:
					used["g"] = true
				}
			}
			mark(e)
			var ds []Decl
			for _, d := range p.Decls {
				if used[d.Name] {
					ds = append(ds, d)
				}
			}
			p.Decls = ds
			body := []Stmt{Assign{Target: Ref{Name: "before", T: TInt}, Op: "++"}, e, Assign{Target: Ref{Name: "aft", T: TInt}, Op: "++"}}
			if nested {
				body = []Stmt{Assign{Target: Ref{Name: "before", T: TInt}, Op: "++"}, Cond{C: Pat{"."}, Then: []Stmt{e}}, Assign{Target: Ref{Name: "aft", T: TInt}, Op: "++"}}
			}
			p.Stmts = []Stmt{Cond{C: Pat{pat}, Then: body}, Cond{C: Pat{"."}, Then: []Stmt{Assign{Target: Ref{Name: "later", T: TInt}, Op: "++"}}}}
			out = append(out, Case{Family: "runtime-error", P: p, Lines: []string{"12 5", "x 0", "ff 16", "7 1", "y 99", "plain"}})
		}
	}
	return out
}

// ---- documented forms: small fixed programs written exactly as docs/Language.md shows them

type RawCase struct {
	Name, Src string
}

func GenDocumented() []RawCase {
	return []RawCase{
		{"two pattern matches in one condition", "counter c\n/^(?P<s>\\w+) (?P<t>\\w+)$/ {\n  $s =~ /a/ && $t =~ /b/ {\n    c++\n  }\n}\n"},
		{"pattern constant first in a concatenation (PREFIX + /foo/)", "counter c\nconst PREFIX /^\\w+ /\nPREFIX + /foo/ {\n  c++\n}\n"},
		{"pattern constant alone as condition", "counter c\nconst PREFIX /^\\w+ /\nPREFIX {\n  c++\n}\n"},
		{"pattern constant in the middle of a concatenation", "counter c\nconst IP /(?P<ip>\\d+\\.\\d+)/\n/addr / + IP + / end/ {\n  c++\n}\n"},
		{"two bare patterns joined by ||", "counter c\n/a/ || /b/ {\n  c++\n}\n"},
		{"pattern && relational with the capture defined in the same condition", "counter c\n/(?P<x>\\d+)/ && $x > 1 {\n  c++\n}\n"},
		{"unary logical negation !", "counter c\n/(?P<x>\\d+)/ {\n  !($x > 1) {\n    c++\n  }\n}\n"},
		{"relational on a metric as condition", "counter c\ngauge v\n/(?P<x>\\d+)/ {\n  v = $x\n}\nv > 0 {\n  c++\n}\n"},
		{"getfilename() !~ pattern then stop", "counter c\ngetfilename() !~ /apache/ {\n  stop\n}\n/./ {\n  c++\n}\n"},
		{"bare stop", "stop\n"},
		{"as-renamed and hidden declarations", "counter lines_total as \"line-count\"\nhidden counter h\n/$/ {\n  lines_total++\n  h++\n}\n"},
		{"del with after", "gauge d by s\n/(?P<s>\\w+)/ {\n  d[$s] = 1\n  del d[$s] after 24h\n}\n"},
	}
}

// GenSequel re-issues the string/builtin expression programs with a second, later top-level block whose
// pattern defines its own capture groups (a statement must not change how later patterns are compiled).
func GenSequel(base []Case) []Case {
	var out []Case
	for _, cs := range base {
		if cs.Family != "expr-string" && cs.Family != "expr-builtin" {
			continue
		}
		q := &Program{Decls: append(append([]Decl{}, cs.P.Decls...), Decl{Kind: "counter", Name: "seq", Keys: []string{"k"}, T: TInt}, Decl{Kind: "gauge", Name: "seqn", T: TInt}), Defs: cs.P.Defs}
		q.Stmts = append(append([]Stmt{}, cs.P.Stmts...), Cond{C: Pat{`^(?P<z>\d+) (\d+\.\d+) (?P<y>\w+)`}, Then: []Stmt{
			Assign{Target: Ref{Name: "seq", Idx: []Expr{Cap{"y", TString}}, T: TInt}, Op: "++"},
			Assign{Target: Ref{Name: "seqn", T: TInt}, Op: "=", RHS: Cap{"z", TInt}},
		}})
		out = append(out, Case{Family: "sequel", P: q, Lines: cs.Lines})
	}
	return out
}

// ---- F-capscope: capture groups belong to the pattern occurrence that defined them, on this line

// GenCapScope: (a) two occurrences of a pattern (same or different text, same group name) applied with =~ to
// different strings, nested or in sequence, the outer capture read before / after the inner block; (b) the same
// pattern text in two top-level blocks; (c) a capture reached although its match was short-circuited away on
// this line (a runtime error, whatever earlier lines matched).
func GenCapScope() []Case {
	var out []Case
	outer := `^(?P<a>\S+) (?P<b>\S+)$`
	pats := []string{`^k(?P<n>\w+)`, `^j(?P<n>\w+)`}
	lines := []string{"k7 k9", "k3 zz", "j1 k2", "zz k5", "k4 j6", "plain"}
	decls := []Decl{{Kind: "counter", Name: "hits", Keys: []string{"k"}, T: TInt}, {Kind: "counter", Name: "inner", Keys: []string{"k"}, T: TInt}}
	a, b, n := Cap{"a", TString}, Cap{"b", TString}, Cap{"n", TString}
	hit := Assign{Target: Ref{Name: "hits", Idx: []Expr{n}, T: TInt}, Op: "++"}
	in := Assign{Target: Ref{Name: "inner", Idx: []Expr{n}, T: TInt}, Op: "++"}
	for _, p1 := range pats {
		for _, p2 := range pats {
			innerC := Cond{C: Match{false, b, p2}, Then: []Stmt{in}}
			shapes := [][]Stmt{
				{Cond{C: Match{false, a, p1}, Then: []Stmt{innerC, hit}}},
				{Cond{C: Match{false, a, p1}, Then: []Stmt{hit, innerC, hit}}},
				{Cond{C: Match{false, a, p1}, Then: []Stmt{hit}}, innerC},
				{Cond{C: Match{false, a, p1}, Then: []Stmt{hit}, Else: []Stmt{innerC}}},
			}
			for _, sh := range shapes {
				out = append(out, Case{Family: "capture-scope", P: &Program{Decls: decls, Stmts: []Stmt{Cond{C: Pat{outer}, Then: sh}}}, Lines: lines})
			}
			// the same texts as line patterns of two top-level blocks
			out = append(out, Case{Family: "capture-scope", P: &Program{Decls: decls, Stmts: []Stmt{
				Cond{C: Pat{p1}, Then: []Stmt{hit}}, Cond{C: Pat{p2}, Then: []Stmt{in}},
			}}, Lines: lines})
		}
	}
	// short circuit: the capture is read although its pattern was not evaluated on this line
	d2 := []Decl{{Kind: "counter", Name: "c", T: TInt}, {Kind: "counter", Name: "total", T: TInt}, {Kind: "counter", Name: "done", T: TInt}}
	m := Cap{"m", TInt}
	body := []Stmt{
		Assign{Target: Ref{Name: "c", T: TInt}, Op: "++"},
		Assign{Target: Ref{Name: "total", T: TInt}, Op: "+=", RHS: m},
		Assign{Target: Ref{Name: "done", T: TInt}, Op: "++"},
	}
	l2 := []string{"add n5", "reset now", "reset n7", "add x", "plain"}
	for _, op := range []string{"||", "&&"} {
		for _, word := range []string{"reset", "add"} {
			for _, neg := range []string{"==", "!="} {
				cnd := Bin{op, Bin{neg, a, StrLit{word}}, Match{false, b, `^n(?P<m>\d+)$`}}
				out = append(out, Case{Family: "capture-scope", P: &Program{Decls: d2, Stmts: []Stmt{Cond{C: Pat{outer}, Then: []Stmt{Cond{C: cnd, Then: body}}}}}, Lines: l2})
			}
		}
	}
	return out
}

// ---- F-decoscope: what a decorated block sees of its decorator, and what a decorator leaves behind

// GenDecoScope: (a) a decorator whose definition nests two patterns defining the same group name, with `next`
// in the inner or after it: the decorated block sees the innermost definition in scope at the `next`;
// (b) decorator applications and `next` as the only flag-using statement of an else block, with an
// `otherwise` of the enclosing block behind them.
func GenDecoScope() []Case {
	var out []Case
	outer := `^(?P<w>\S+) (?P<n>\S+)$`
	inner := `^k(?P<n>\w+)`
	w, n := Cap{"w", TString}, Cap{"n", TString}
	decls := []Decl{{Kind: "counter", Name: "seen", Keys: []string{"k"}, T: TInt}, {Kind: "counter", Name: "t", T: TInt}}
	seen := Assign{Target: Ref{Name: "seen", Idx: []Expr{n}, T: TInt}, Op: "++"}
	tick := Assign{Target: Ref{Name: "t", T: TInt}, Op: "++"}
	lines := []string{"k7 zz", "x y", "kab cd", "plain"}
	bodies := [][]Stmt{
		{Cond{C: Pat{outer}, Then: []Stmt{Cond{C: Match{false, w, inner}, Then: []Stmt{Next{}}}}}},
		{Cond{C: Pat{outer}, Then: []Stmt{Cond{C: Match{false, w, inner}, Then: []Stmt{tick}}, Next{}}}},
	}
	for _, b := range bodies {
		out = append(out, Case{Family: "decorator-scope", P: &Program{Decls: decls, Defs: []DecoDef{{Name: "d", Body: b}}, Stmts: []Stmt{Deco{Name: "d", Body: []Stmt{seen, tick}}}}, Lines: lines})
	}
	// else blocks whose only user of the matched flag is a decorator application / a `next`
	d2 := []Decl{{Kind: "counter", Name: "ca", T: TInt}, {Kind: "counter", Name: "cb", T: TInt}, {Kind: "counter", Name: "cd", T: TInt}, {Kind: "counter", Name: "cf", T: TInt}}
	inc := func(nm string) Stmt { return Assign{Target: Ref{Name: nm, T: TInt}, Op: "++"} }
	l2 := []string{"b", "x", "c", "bc", "a", "ac"}
	defC := DecoDef{Name: "onc", Body: []Stmt{Cond{C: Pat{"c"}, Then: []Stmt{Next{}}}}}
	out = append(out, Case{Family: "decorator-scope", P: &Program{Decls: d2, Defs: []DecoDef{defC}, Stmts: []Stmt{
		Cond{C: Pat{"b"}, Then: []Stmt{inc("cb")}},
		Cond{C: Pat{"a"}, Then: []Stmt{inc("ca")}, Else: []Stmt{Deco{Name: "onc", Body: []Stmt{inc("cd")}}}},
		Otherwise{Body: []Stmt{inc("cf")}},
	}}, Lines: l2})
	out = append(out, Case{Family: "decorator-scope", P: &Program{Decls: d2, Defs: []DecoDef{defC}, Stmts: []Stmt{
		Cond{C: Pat{"a"}, Then: []Stmt{inc("ca")}, Else: []Stmt{inc("cb"), Deco{Name: "onc", Body: []Stmt{inc("cd")}}}},
		Otherwise{Body: []Stmt{inc("cf")}},
	}}, Lines: l2})
	defElse := DecoDef{Name: "nota", Body: []Stmt{Cond{C: Pat{"a"}, Then: []Stmt{inc("ca")}, Else: []Stmt{Next{}}}, Otherwise{Body: []Stmt{inc("cf")}}}}
	out = append(out, Case{Family: "decorator-scope", P: &Program{Decls: d2, Defs: []DecoDef{defElse}, Stmts: []Stmt{
		Deco{Name: "nota", Body: []Stmt{Cond{C: Pat{"c"}, Then: []Stmt{inc("cd")}}, inc("cb")}},
	}}, Lines: l2})
	return out
}

// All returns every family.
func All(thorough bool) []Case {
	var out []Case
	out = append(out, GenExpr(thorough)...)
	out = append(out, GenSequel(out)...)
	out = append(out, GenPrecedence()...)
	out = append(out, GenCtl(thorough)...)
	out = append(out, GenDeco()...)
	out = append(out, GenDecl()...)
	out = append(out, GenErr()...)
	out = append(out, GenCapScope()...)
	out = append(out, GenDecoScope()...)
	return out
}

// Contexts maps every metric incremented by a `name++` statement to the chain
// of constructs it sits in (e.g. "cond>else>otherwise"), for classifying
// findings by the construct they concern.
func Contexts(p *Program) map[string]string {
	out := map[string]string{}
	var walk func(ss []Stmt, path string)
	walk = func(ss []Stmt, path string) {
		for _, s := range ss {
			switch x := s.(type) {
			case Assign:
				if x.Op == "++" {
					out[x.Target.Name] = path
				}
			case Cond:
				walk(x.Then, path+">then")
				if x.Else != nil {
					walk(x.Else, path+">else")
				}
			case Otherwise:
				walk(x.Body, path+">otherwise")
			case Deco:
				walk(x.Body, path+">deco")
			}
		}
	}
	walk(p.Stmts, "")
	return out
}
