// Package mtl is the /verif side of the mtail language: an AST of its own, a
// printer that produces concrete syntax for the real parser, an enumerator of
// well-typed program families (gen.go) and an independent reference
// interpreter written from docs/Language.md (eval.go).  It shares no code
// with mtail.
package mtl

import (
	"fmt"
	"strconv"
	"strings"
)

type Type int

const (
	TInt Type = iota
	TFloat
	TString
	TBool
)

func (t Type) String() string { return [...]string{"int", "float", "string", "bool"}[t] }

// ---- expressions

type Expr interface{ typ() Type }

type IntLit struct{ V int64 }
type FloatLit struct{ V float64 }
type StrLit struct{ S string }

// Cap is a named capture group reference; T is the type mtail infers from the
// group's pattern (\d+ -> int, \d+\.\d+ -> float, anything else -> string).
type Cap struct {
	Name string
	T    Type
}

// Ref reads (or, as an assignment target, names) a metric datum.
type Ref struct {
	Name string
	Idx  []Expr
	T    Type // value type of the metric
}

type Bin struct {
	Op   string
	L, R Expr
}

// Match is `L =~ /Re/` or `L !~ /Re/`.
type Match struct {
	Neg bool
	L   Expr
	Re  string
}

// Pat is a bare pattern used as a condition.
type Pat struct{ Re string }

// RawPat is a pattern expression given as concrete syntax (pattern concatenations with constants, in mutants).
type RawPat struct{ Text string }

type Call struct {
	Fn   string
	Args []Expr
	T    Type
}

func (IntLit) typ() Type   { return TInt }
func (FloatLit) typ() Type { return TFloat }
func (StrLit) typ() Type   { return TString }
func (c Cap) typ() Type    { return c.T }
func (r Ref) typ() Type    { return r.T }
func (Match) typ() Type    { return TBool }
func (Pat) typ() Type      { return TBool }
func (RawPat) typ() Type   { return TBool }
func (c Call) typ() Type   { return c.T }
func (b Bin) typ() Type {
	switch b.Op {
	case "<", "<=", ">", ">=", "==", "!=", "&&", "||":
		return TBool
	case "<<", ">>", "&", "|", "^":
		return TInt
	}
	if b.L.typ() == TFloat || b.R.typ() == TFloat {
		return TFloat
	}
	if b.L.typ() == TString || b.R.typ() == TString {
		return TString
	}
	return TInt
}

func TypeOf(e Expr) Type { return e.typ() }

// ---- statements

type Stmt interface{}

type Cond struct {
	C    Expr
	Then []Stmt
	Else []Stmt // nil = no else clause
}
type Otherwise struct{ Body []Stmt }
type Assign struct {
	Target Ref
	Op     string // "=", "+=", "++", "--"
	RHS    Expr
}
type Del struct {
	Target Ref
	After  string // "" or a duration literal such as "1h"
}
type Stop struct{}
type Next struct{}
type Deco struct {
	Name string
	Body []Stmt
}

type Decl struct {
	Kind   string // counter, gauge, text
	Name   string
	Keys   []string
	Hidden bool
	T      Type
}
type DecoDef struct {
	Name string
	Body []Stmt
}
type Program struct {
	Consts []string // `const NAME /re/` lines (mutants only)
	Decls  []Decl
	Defs   []DecoDef
	Stmts  []Stmt
}

// ---- printer

// precedence of the real grammar (parser.y at the pinned commit), low to high:
// logical (&& ||) < bitwise (& | ^) < relational < shift < additive < multiplicative (* / % **).
// All levels are left-associative.
func Prec(op string) int {
	switch op {
	case "&&", "||":
		return 1
	case "&", "|", "^":
		return 2
	case "<", "<=", ">", ">=", "==", "!=":
		return 3
	case "<<", ">>":
		return 4
	case "+", "-":
		return 5
	case "*", "/", "%", "**":
		return 6
	}
	return 9
}

func exprPrec(e Expr) int {
	switch x := e.(type) {
	case Bin:
		return Prec(x.Op)
	case Match:
		return 1 // match expressions sit at the logical level of the grammar; always parenthesised as operands
	}
	return 10
}

func fmtFloat(f float64) string {
	s := strconv.FormatFloat(f, 'f', -1, 64)
	if !strings.Contains(s, ".") {
		s += ".0"
	}
	return s
}

func PrintExpr(e Expr) string {
	switch x := e.(type) {
	case IntLit:
		return strconv.FormatInt(x.V, 10)
	case FloatLit:
		return fmtFloat(x.V)
	case StrLit:
		return strconv.Quote(x.S)
	case Cap:
		return "$" + x.Name
	case Ref:
		s := x.Name
		for _, i := range x.Idx {
			s += "[" + PrintExpr(i) + "]"
		}
		return s
	case Pat:
		return "/" + x.Re + "/"
	case RawPat:
		return x.Text
	case Match:
		op := " =~ "
		if x.Neg {
			op = " !~ "
		}
		return PrintExpr(x.L) + op + "/" + x.Re + "/"
	case Call:
		var as []string
		for _, a := range x.Args {
			as = append(as, PrintExpr(a))
		}
		return x.Fn + "(" + strings.Join(as, ", ") + ")"
	case Bin:
		l, r := PrintExpr(x.L), PrintExpr(x.R)
		if exprPrec(x.L) < Prec(x.Op) {
			l = "(" + l + ")"
		}
		if exprPrec(x.R) <= Prec(x.Op) {
			r = "(" + r + ")"
		}
		return l + " " + x.Op + " " + r
	}
	panic(fmt.Sprintf("mtl: cannot print %T", e))
}

func printStmts(b *strings.Builder, ss []Stmt, ind string) {
	for _, s := range ss {
		switch x := s.(type) {
		case Cond:
			b.WriteString(ind + PrintExpr(x.C) + " {\n")
			printStmts(b, x.Then, ind+"  ")
			if x.Else != nil {
				b.WriteString(ind + "} else {\n")
				printStmts(b, x.Else, ind+"  ")
			}
			b.WriteString(ind + "}\n")
		case Otherwise:
			b.WriteString(ind + "otherwise {\n")
			printStmts(b, x.Body, ind+"  ")
			b.WriteString(ind + "}\n")
		case Assign:
			t := PrintExpr(x.Target)
			switch x.Op {
			case "++", "--":
				b.WriteString(ind + t + x.Op + "\n")
			default:
				b.WriteString(ind + t + " " + x.Op + " " + PrintExpr(x.RHS) + "\n")
			}
		case Del:
			b.WriteString(ind + "del " + PrintExpr(x.Target))
			if x.After != "" {
				b.WriteString(" after " + x.After)
			}
			b.WriteString("\n")
		case Stop:
			b.WriteString(ind + "stop\n")
		case Next:
			b.WriteString(ind + "next\n")
		case Deco:
			b.WriteString(ind + "@" + x.Name + " {\n")
			printStmts(b, x.Body, ind+"  ")
			b.WriteString(ind + "}\n")
		default:
			panic(fmt.Sprintf("mtl: cannot print %T", s))
		}
	}
}

func (p *Program) String() string {
	var b strings.Builder
	for _, k := range p.Consts {
		b.WriteString(k + "\n")
	}
	for _, d := range p.Decls {
		if d.Hidden {
			b.WriteString("hidden ")
		}
		b.WriteString(d.Kind + " " + d.Name)
		if len(d.Keys) > 0 {
			b.WriteString(" by " + strings.Join(d.Keys, ", "))
		}
		b.WriteString("\n")
	}
	for _, d := range p.Defs {
		b.WriteString("def " + d.Name + " {\n")
		printStmts(&b, d.Body, "  ")
		b.WriteString("}\n")
	}
	printStmts(&b, p.Stmts, "")
	return b.String()
}
