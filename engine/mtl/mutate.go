package mtl

import (
	"fmt"
	"strings"
)

// Mutant is a program obtained from a well-typed one by one defect-introducing
// mutation at one site.
type Mutant struct {
	Kind string // which defect
	Site int
	P    *Program
}

type rewriter struct {
	isSite func(node interface{}) bool
	mutate func(node interface{}) interface{} // Expr -> Expr, Stmt -> []Stmt
	target int
	n      int
}

func (r *rewriter) expr(e Expr) Expr {
	if r.isSite(e) {
		r.n++
		if r.n-1 == r.target {
			return r.mutate(e).(Expr)
		}
	}
	switch x := e.(type) {
	case Bin:
		return Bin{x.Op, r.expr(x.L), r.expr(x.R)}
	case Match:
		return Match{x.Neg, r.expr(x.L), x.Re}
	case Call:
		as := make([]Expr, len(x.Args))
		for i, a := range x.Args {
			as[i] = r.expr(a)
		}
		return Call{x.Fn, as, x.T}
	case Ref:
		return r.ref(x)
	}
	return e
}

func (r *rewriter) ref(x Ref) Ref {
	idx := make([]Expr, len(x.Idx))
	for i, a := range x.Idx {
		idx[i] = r.expr(a)
	}
	return Ref{x.Name, idx, x.T}
}

func (r *rewriter) stmts(ss []Stmt, top bool) []Stmt {
	var out []Stmt
	for _, s := range ss {
		if r.isSite(s) || (top && r.isSite(topLevel{s})) {
			r.n++
			if r.n-1 == r.target {
				out = append(out, r.mutate(s).([]Stmt)...)
				continue
			}
		}
		switch x := s.(type) {
		case Cond:
			c := Cond{C: r.expr(x.C), Then: r.stmts(x.Then, false)}
			if x.Else != nil {
				c.Else = r.stmts(x.Else, false)
				if c.Else == nil {
					c.Else = []Stmt{}
				}
			}
			out = append(out, c)
		case Otherwise:
			out = append(out, Otherwise{r.stmts(x.Body, false)})
		case Assign:
			a := Assign{Target: r.ref(x.Target), Op: x.Op}
			if x.RHS != nil {
				a.RHS = r.expr(x.RHS)
			}
			out = append(out, a)
		case Del:
			out = append(out, Del{r.ref(x.Target), x.After})
		case Deco:
			out = append(out, Deco{x.Name, r.stmts(x.Body, false)})
		default:
			out = append(out, s)
		}
	}
	return out
}

type topLevel struct{ s Stmt }

func apply(p *Program, isSite func(interface{}) bool, mutate func(interface{}) interface{}, target int) (*Program, int) {
	r := &rewriter{isSite: isSite, mutate: mutate, target: target}
	q := &Program{Decls: append([]Decl{}, p.Decls...)}
	for _, d := range p.Defs {
		q.Defs = append(q.Defs, DecoDef{d.Name, (&rewriter{isSite: func(interface{}) bool { return false }, target: -1}).stmts(d.Body, false)})
	}
	q.Stmts = r.stmts(p.Stmts, true)
	return q, r.n
}

func firstCap(p *Program) (Cap, bool) {
	var found Cap
	ok := false
	apply(p, func(n interface{}) bool {
		if c, is := n.(Cap); is && !ok {
			found, ok = c, true
		}
		return false
	}, nil, -1)
	return found, ok
}

// Mutants returns every single-site mutant of p for the ten defect kinds of C24.
func Mutants(p *Program) []Mutant {
	var out []Mutant
	site := func(kind string, isSite func(interface{}) bool, mutate func(interface{}) interface{}) {
		_, n := apply(p, isSite, mutate, -1)
		for i := 0; i < n; i++ {
			q, _ := apply(p, isSite, mutate, i)
			out = append(out, Mutant{kind, i, q})
		}
	}
	isCap := func(n interface{}) bool { _, ok := n.(Cap); return ok }
	isPat := func(n interface{}) bool {
		switch n.(type) {
		case Pat, Match:
			return true
		}
		return false
	}
	// 1 undeclared metric, 6 redeclared name
	for i := range p.Decls {
		q, _ := apply(p, func(interface{}) bool { return false }, nil, -1)
		q.Decls = append(append([]Decl{}, p.Decls[:i]...), p.Decls[i+1:]...)
		out = append(out, Mutant{"undeclared-metric", i, q})
		q2, _ := apply(p, func(interface{}) bool { return false }, nil, -1)
		q2.Decls = append(append([]Decl{}, p.Decls...), p.Decls[i])
		out = append(out, Mutant{"redeclared-name", i, q2})
	}
	// 6b a name redeclared with another kind: a metric named like a decorator
	for i, d := range p.Defs {
		q, _ := apply(p, func(interface{}) bool { return false }, nil, -1)
		q.Decls = append([]Decl{{Kind: "counter", Name: d.Name, T: TInt}}, q.Decls...)
		out = append(out, Mutant{"redeclared-name-other-kind", i, q})
		q2, _ := apply(p, func(interface{}) bool { return false }, nil, -1)
		q2.Decls = append(q2.Decls, Decl{Kind: "gauge", Name: d.Name, T: TInt})
		out = append(out, Mutant{"redeclared-name-other-kind", i + 100, q2})
	}
	// 2 capture groups
	site("capture-index-too-high", isCap, func(n interface{}) interface{} { return Cap{"9", n.(Cap).T} })
	site("capture-unknown-name", isCap, func(n interface{}) interface{} { return Cap{"nosuchgroup", n.(Cap).T} })
	if c, ok := firstCap(p); ok {
		q, _ := apply(p, func(interface{}) bool { return false }, nil, -1)
		q.Decls = append(q.Decls, Decl{Kind: "counter", Name: "sink", Keys: []string{"k"}, T: TInt})
		q.Stmts = append(q.Stmts, Cond{C: Pat{"zz"}, Then: []Stmt{Assign{Target: Ref{Name: "sink", Idx: []Expr{Cap{c.Name, TString}}, T: TInt}, Op: "++"}}})
		out = append(out, Mutant{"capture-from-sibling-block", 0, q})
	}
	// 3 undefined decorator
	site("undefined-decorator", func(n interface{}) bool { _, ok := n.(Deco); return ok }, func(n interface{}) interface{} {
		return []Stmt{Deco{"nosuchdeco", n.(Deco).Body}}
	})
	// 4 next outside a decorator
	site("next-outside-decorator", func(n interface{}) bool {
		t, ok := n.(topLevel)
		if !ok {
			return false
		}
		_, isCond := t.s.(Cond)
		return isCond
	}, func(n interface{}) interface{} {
		c := n.(Cond)
		return []Stmt{Cond{C: c.C, Then: append([]Stmt{Next{}}, c.Then...), Else: c.Else}}
	})
	// 5 key arity
	isStmtWithRef := func(n interface{}) bool {
		switch n.(type) {
		case Assign, Del:
			return true
		}
		return false
	}
	retarget := func(n interface{}, f func(Ref) Ref) interface{} {
		switch x := n.(type) {
		case Assign:
			x.Target = f(x.Target)
			return []Stmt{x}
		case Del:
			x.Target = f(x.Target)
			return []Stmt{x}
		}
		return []Stmt{n}
	}
	site("one-key-too-many", isStmtWithRef, func(n interface{}) interface{} {
		return retarget(n, func(r Ref) Ref { return Ref{r.Name, append(append([]Expr{}, r.Idx...), StrLit{"extra"}), r.T} })
	})
	site("one-key-too-few", func(n interface{}) bool {
		switch x := n.(type) {
		case Assign:
			return len(x.Target.Idx) > 0
		case Del:
			return len(x.Target.Idx) > 0
		}
		return false
	}, func(n interface{}) interface{} {
		return retarget(n, func(r Ref) Ref { return Ref{r.Name, r.Idx[:len(r.Idx)-1], r.T} })
	})
	// 7 unused declaration
	{
		q, _ := apply(p, func(interface{}) bool { return false }, nil, -1)
		q.Decls = append(q.Decls, Decl{Kind: "counter", Name: "unused_zz", T: TInt})
		out = append(out, Mutant{"unused-declaration", 0, q})
	}
	// 8, 9 regexes
	mutRe := func(f func(string) string) func(interface{}) interface{} {
		return func(n interface{}) interface{} {
			switch x := n.(type) {
			case Pat:
				return Pat{f(x.Re)}
			case Match:
				return Match{x.Neg, x.L, f(x.Re)}
			}
			return n
		}
	}
	site("invalid-regex", isPat, mutRe(func(s string) string { return "(" + s }))
	site("regex-too-long", isPat, mutRe(func(s string) string { return s + strings.Repeat("a", 1025) }))
	// 9b over the length limit only as a whole: a literal and a constant fragment, each within the limit
	{
		half := strings.Repeat("b", 600)
		for vi, mk := range []func(re string) string{
			func(re string) string { return "/" + re + strings.Repeat("a", 600) + "/ + LONGZZ" },
			func(re string) string { return "LONGZZ + /" + re + strings.Repeat("a", 600) + "/" },
			func(re string) string { return "/" + re + "/ + LONGZZ + LONGZZ" },
		} {
			mk := mk
			before := len(out)
			site(fmt.Sprintf("regex-too-long-by-concatenation-%d", vi), func(n interface{}) bool { _, ok := n.(Pat); return ok }, func(n interface{}) interface{} {
				return RawPat{mk(n.(Pat).Re)}
			})
			for i := before; i < len(out); i++ {
				out[i].P.Consts = append(out[i].P.Consts, "const LONGZZ /"+half+"/")
			}
		}
	}
	// 10 division / modulus by the literal zero on integers
	isIntAtom := func(n interface{}) bool {
		switch x := n.(type) {
		case IntLit:
			return true
		case Cap:
			return x.T == TInt
		}
		return false
	}
	site("integer-division-by-literal-zero", isIntAtom, func(n interface{}) interface{} { return Bin{"/", n.(Expr), IntLit{0}} })
	site("integer-modulus-by-literal-zero", isIntAtom, func(n interface{}) interface{} { return Bin{"%", n.(Expr), IntLit{0}} })
	// 11 the same defects inside an operand that algebra makes irrelevant (a factor of the literal 0)
	site("division-by-zero-times-zero", isIntAtom, func(n interface{}) interface{} {
		return Bin{"*", Bin{"/", n.(Expr), IntLit{0}}, IntLit{0}}
	})
	site("zero-times-undeclared-metric", isIntAtom, func(n interface{}) interface{} {
		return Bin{"+", n.(Expr), Bin{"*", IntLit{0}, Ref{Name: "nosuchmetric_zz", T: TInt}}}
	})
	site("unknown-capture-times-zero", isIntAtom, func(n interface{}) interface{} {
		return Bin{"+", n.(Expr), Bin{"*", Cap{"nosuchgroup", TInt}, IntLit{0}}}
	})
	return out
}

func (m Mutant) String() string { return fmt.Sprintf("%s@%d", m.Kind, m.Site) }
