// Package hsx is the multi-process explicit-state explorer for *histories* of
// operations on real mtail components that must run under the gosim scheduler
// (one controlled execution at a time per process).  The parent performs a
// breadth-first search with state de-duplication; every transition is executed
// by a worker subprocess that replays the shortest known history to the parent
// state on a fresh instance of the real code and applies one more operation.
package hsx

import (
	"bufio"
	"crypto/sha256"
	"encoding/json"
	"flag"
	"fmt"
	"os"
	"os/exec"
	"runtime"
	"sort"
	"strconv"
	"strings"
	"sync"
	"time"

	"github.com/google/mtail/internal/zverif/vlib"
	"github.com/google/mtail/internal/zverif/vrt"
)

// Result of executing one history on a fresh instance of the real code.
type Result struct {
	Key       string `json:"k"`           // canonical observable state reached; "" = last op not applicable here
	Violation string `json:"v,omitempty"` // the real code disagreed with the oracle at the last step
	VKey      string `json:"vk,omitempty"`
	Note      string `json:"n,omitempty"` // free-form outcome class, counted in the evidence
}

type Config struct {
	Name     string
	Ops      []string // operation names (the alphabet); a history is a list of indices
	MaxDepth int
	Deadline time.Time
	// Run executes hist on a fresh instance and checks the oracle after the
	// LAST operation (all proper prefixes are histories of their own).
	Run func(hist []int) Result
}

type Stats struct {
	Name          string   `json:"configuration"`
	States        int      `json:"states"`
	Transitions   int      `json:"transitions"`
	MaxDepth      int      `json:"max_depth"`
	DepthComplete int      `json:"depth_completed"`
	Fixpoint      bool     `json:"fixpoint"`
	Capped        bool     `json:"capped"`
	Frontiers     []int    `json:"frontier_sizes"`
	Longest       []string `json:"longest_history"`
	Notes         map[string]int
}

func isWorker() bool { return os.Getenv("HSX_WORKER") != "" }

// QuietGlog sends glog output to stderr only (never to files under /tmp).
func QuietGlog() {
	_ = flag.Set("logtostderr", "true")
}

func hname(cfg Config, h []int) []string {
	out := make([]string, len(h))
	for i, o := range h {
		out[i] = cfg.Ops[o]
	}
	return out
}

func serve(cfgs []Config) {
	in := bufio.NewScanner(os.Stdin)
	in.Buffer(make([]byte, 1<<20), 1<<24)
	out := bufio.NewWriter(os.Stdout)
	for in.Scan() {
		f := strings.Fields(in.Text())
		if len(f) == 0 {
			continue
		}
		ci, _ := strconv.Atoi(f[0])
		h := make([]int, 0, len(f)-1)
		for _, s := range f[1:] {
			x, _ := strconv.Atoi(s)
			h = append(h, x)
		}
		r := cfgs[ci].Run(h)
		b, _ := json.Marshal(r)
		fmt.Fprintf(out, "HSXR %s\n", b)
		out.Flush()
	}
	os.Exit(0)
}

type proc struct {
	cmd *exec.Cmd
	in  *bufio.Writer
	out *bufio.Scanner
}

func spawn(k int) *proc {
	cmd := exec.Command(os.Args[0], os.Args[1:]...)
	cmd.Env = append(os.Environ(), fmt.Sprintf("HSX_WORKER=%d", k+1), "GOMAXPROCS=2")
	if sd := os.Getenv("VERIF_SCRATCH"); sd != "" {
		if f, err := os.Create(fmt.Sprintf("%s/worker%d.stderr", sd, k)); err == nil {
			cmd.Stderr = f
		}
	}
	stdin, _ := cmd.StdinPipe()
	stdout, _ := cmd.StdoutPipe()
	if err := cmd.Start(); err != nil {
		fmt.Println("ENGINE-ERROR cannot start worker:", err)
		os.Exit(2)
	}
	sc := bufio.NewScanner(stdout)
	sc.Buffer(make([]byte, 1<<20), 1<<26)
	return &proc{cmd, bufio.NewWriter(stdin), sc}
}

func (p *proc) call(ci int, h []int) (Result, error) {
	var sb strings.Builder
	sb.WriteString(strconv.Itoa(ci))
	for _, o := range h {
		sb.WriteByte(' ')
		sb.WriteString(strconv.Itoa(o))
	}
	sb.WriteByte('\n')
	if _, err := p.in.WriteString(sb.String()); err != nil {
		return Result{}, err
	}
	if err := p.in.Flush(); err != nil {
		return Result{}, err
	}
	for p.out.Scan() {
		line := p.out.Text()
		if strings.HasPrefix(line, "HSXR ") {
			var r Result
			err := json.Unmarshal([]byte(line[5:]), &r)
			return r, err
		}
		fmt.Println(line)
	}
	return Result{}, fmt.Errorf("worker exited while executing the history")
}

// ReplayHistory parses the history of a replay file (list of op names).
func replayHist(c *vlib.Ctx, cfgs []Config) {
	b, err := os.ReadFile(c.ReplayOnly)
	if err != nil {
		fmt.Println("ENGINE-ERROR", err)
		os.Exit(2)
	}
	var f struct {
		Replay struct {
			Configuration string   `json:"configuration"`
			History       []string `json:"history"`
		} `json:"replay"`
	}
	if err := json.Unmarshal(b, &f); err != nil {
		fmt.Println("ENGINE-ERROR", err)
		os.Exit(2)
	}
	for _, cfg := range cfgs {
		if cfg.Name != f.Replay.Configuration {
			continue
		}
		var h []int
		for _, name := range f.Replay.History {
			idx := -1
			for i, o := range cfg.Ops {
				if o == name {
					idx = i
				}
			}
			if idx < 0 {
				fmt.Println("ENGINE-ERROR unknown operation in replay file:", name)
				os.Exit(2)
			}
			h = append(h, idx)
		}
		r := cfg.Run(h)
		fmt.Printf("replayed %s %v\n  state: %s\n", cfg.Name, f.Replay.History, r.Key)
		if r.Violation != "" {
			c.Report(r.VKey, r.Violation, map[string]interface{}{"configuration": cfg.Name, "history": f.Replay.History})
		}
	}
	c.Finish("replay of one recorded history")
}

// Explore runs all configurations and finishes the check (never returns).
func Explore(c *vlib.Ctx, rule string, cfgs ...Config) {
	if isWorker() {
		serve(cfgs)
	}
	if c.ReplayOnly != "" {
		replayHist(c, cfgs)
	}
	n := runtime.NumCPU()
	if s := os.Getenv("VRT_WORKERS"); s != "" {
		fmt.Sscan(s, &n)
	}
	procs := make([]*proc, n)
	for k := range procs {
		procs[k] = spawn(k)
	}
	type task struct {
		ci int
		h  []int
	}
	type done struct {
		h []int
		r Result
	}
	var all []Stats
	totalStates, totalTrans := 0, 0
	fix := true
	for ci, cfg := range cfgs {
		st := Stats{Name: cfg.Name, Notes: map[string]int{}}
		seen := map[string]bool{}
		root, err := procs[0].call(ci, nil)
		if err != nil {
			fmt.Printf("ENGINE-ERROR %s: %v (initial state)\n", cfg.Name, err)
			os.Exit(2)
		}
		if root.Violation != "" {
			c.Report(root.VKey, root.Violation, map[string]interface{}{"configuration": cfg.Name, "history": []string{}})
		}
		seen[root.Key] = true
		st.States = 1
		frontier := [][]int{{}}
		for depth := 0; len(frontier) > 0; depth++ {
			if cfg.MaxDepth > 0 && depth >= cfg.MaxDepth {
				break
			}
			if !cfg.Deadline.IsZero() && time.Now().After(cfg.Deadline) {
				st.Capped = true
				break
			}
			st.Frontiers = append(st.Frontiers, len(frontier))
			tasks := make(chan task, 256)
			results := make(chan done, 256)
			var wg sync.WaitGroup
			var emu sync.Mutex
			var engineErr string
			for k := range procs {
				wg.Add(1)
				go func(k int) {
					defer wg.Done()
					for t := range tasks {
						r, err := procs[k].call(t.ci, t.h)
						if err != nil {
							emu.Lock()
							if engineErr == "" {
								engineErr = fmt.Sprintf("%s: %v: %v", cfg.Name, err, hname(cfg, t.h))
							}
							emu.Unlock()
							procs[k] = spawn(k)
							continue
						}
						results <- done{t.h, r}
					}
				}(k)
			}
			go func() {
				for _, h := range frontier {
					for op := range cfg.Ops {
						tasks <- task{ci, append(append(make([]int, 0, len(h)+1), h...), op)}
					}
				}
				close(tasks)
				wg.Wait()
				close(results)
			}()
			var outs []done
			for d := range results {
				outs = append(outs, d)
			}
			if engineErr != "" {
				fmt.Println("ENGINE-ERROR", engineErr)
				os.Exit(2)
			}
			sort.Slice(outs, func(a, b int) bool { return less(outs[a].h, outs[b].h) })
			var next [][]int
			if kl := os.Getenv("HSX_KEYLOG"); kl != "" {
				if f, err := os.OpenFile(kl, os.O_APPEND|os.O_CREATE|os.O_WRONLY, 0o644); err == nil {
					for _, o := range outs {
						fmt.Fprintf(f, "%s\t%v\t%x\n", cfg.Name, hname(cfg, o.h), sha256.Sum256([]byte(o.r.Key)))
					}
					f.Close()
				}
			}
			for _, o := range outs {
				if o.r.Key == "" && o.r.Violation == "" {
					continue
				}
				st.Transitions++
				if o.r.Note != "" {
					st.Notes[o.r.Note]++
				}
				if o.r.Violation != "" {
					c.Report(o.r.VKey, o.r.Violation, map[string]interface{}{"configuration": cfg.Name, "history": hname(cfg, o.h), "state": o.r.Key})
					continue
				}
				if !seen[o.r.Key] {
					seen[o.r.Key] = true
					st.States++
					next = append(next, o.h)
					if len(o.h) > st.MaxDepth {
						st.MaxDepth = len(o.h)
						st.Longest = hname(cfg, o.h)
					}
					c.Eval(cfg.Name + "\x00" + o.r.Key)
				} else {
					c.Eval("")
				}
			}
			st.DepthComplete = depth + 1
			frontier = next
		}
		st.Fixpoint = len(frontier) == 0 && !st.Capped
		if st.Capped {
			fix = false
		}
		all = append(all, st)
		totalStates += st.States
		totalTrans += st.Transitions
		fmt.Printf("  %s: states=%d transitions=%d depth_completed=%d fixpoint=%v capped=%v\n", cfg.Name, st.States, st.Transitions, st.DepthComplete, st.Fixpoint, st.Capped)
		if len(st.Longest) > 0 {
			c.Sample(map[string]interface{}{"configuration": cfg.Name, "history": st.Longest})
		}
	}
	for _, p := range procs {
		_ = p.cmd.Process.Kill()
	}
	c.Set("states", totalStates)
	c.Set("transitions", totalTrans)
	c.Set("traces_validated_against_impl", totalTrans)
	c.Set("configurations", all)
	c.Set("workers", n)
	if !fix {
		c.CapHit("time budget reached before the depth bound was completed in some configuration (see configurations[].depth_completed)")
	}
	c.Set("exhaustive", fix)
	c.Finish(rule)
}

func less(a, b []int) bool {
	for i := range a {
		if i >= len(b) {
			return false
		}
		if a[i] != b[i] {
			return a[i] < b[i]
		}
	}
	return len(a) < len(b)
}

type seqChooser struct{}

func (seqChooser) Choose(n int, kind string, desc func() string) int { return 0 }

// Exec runs body as a gosim execution under the default (deviation-free)
// schedule and returns the engine's result.
func Exec(maxSteps int, body func()) vrt.Result {
	return vrt.Run(seqChooser{}, false, maxSteps, body)
}

// Anomaly renders engine-level failures of an execution (panic in any thread,
// step limit, deadlock before the body returned) as a violation text; "" if none.
func Anomaly(r vrt.Result) string {
	switch {
	case r.Panic != "":
		return "panic: " + r.Panic
	case r.Livelock:
		return "step limit exceeded (livelock or unbounded polling)"
	case r.Deadlock != "":
		return "deadlock: no thread is enabled and these have not finished:\n" + r.Deadlock
	}
	return ""
}
